"""C17 - cancel hits exactly the selected targets' jobs; one failure stops nothing else."""
import ast

from ..index import FuncInfo, dotted, walk_no_nested, loc, ancestors
from ..paths import Hierarchy
from .persist import _calls
from .schedtable import rule_decision_table

BASE = "gwf.backends.base"
EXC = "gwf.backends.exceptions"


def rule_scheduler_errors_are_backend_errors(ctx, r, h):
    """"scheduler error ... does not prevent the remaining ones": the per-target handler of `gwf cancel` absorbs BackendError (and TargetError), so whatever the
    scheduler-command runner backends.utils.call raises on purpose must BE a BackendError: every `raise X` in it (and its private helpers) has X <= BackendError, a bare
    re-raise sits in a handler for BackendError only, and a blocking call given a timeout= is inside a try that converts the expiry."""
    idx = ctx.index
    res = ctx.resolver
    call_f = idx.func("gwf.backends.utils:call")
    runner_keys = sorted({call_f.key} | {fi.key for fi in idx.command_runners().values()})
    funcs = [idx.functions[k] for k in runner_keys if k in idx.functions] + [
        f for f in idx.functions.values() if f.module.name == "gwf.backends.utils" and f.key not in runner_keys and res.owned_by(f, runner_keys)]
    BE = f"{EXC}.BackendError"
    n = 0
    for f in funcs:
        con = f"{f.module.relpath}::{f.qual}"
        for node in walk_no_nested(f.node):
            if isinstance(node, ast.Raise):
                n += 1
                if node.exc is None:
                    hd = next((a for a in ancestors(node) if isinstance(a, ast.ExceptHandler)), None)
                    types = []
                    if hd is not None and hd.type is not None:
                        types = [idx.canon(e, f.module) for e in (hd.type.elts if isinstance(hd.type, ast.Tuple) else [hd.type])]
                    ok = bool(types) and all(t is not None and h.is_sub(t, BE) for t in types)
                    r.check(ok, con + "::re-raise", "re-raises a BackendError only",
                            f"{f.qual} re-raises {[t or '?' for t in types] or 'whatever was caught'} (line {node.lineno}): that is not a BackendError, so the handler around each target's "
                            "cancellation does not absorb it - one hanging or failing scheduler command ends `gwf cancel` with a traceback and the remaining targets are never cancelled",
                            loc(node, f.module))
                else:
                    e = node.exc.func if isinstance(node.exc, ast.Call) else node.exc
                    t = idx.canon(e, f.module) if isinstance(e, (ast.Name, ast.Attribute)) else None
                    ok = t is not None and h.is_sub(t, BE)
                    r.check(ok, con + f"::raise-{(t or 'unknown').rsplit('.', 1)[-1]}", "raises BackendError (or a subclass)",
                            f"{f.qual} raises {t or ast.unparse(e)} (line {node.lineno}), which is not a BackendError: the handler around each target's cancellation does not absorb it and "
                            "the remaining targets are never cancelled", loc(node, f.module))
            if isinstance(node, ast.Call) and any(k.arg == "timeout" and not (isinstance(k.value, ast.Constant) and k.value.value is None) for k in node.keywords) \
                    and isinstance(node.func, ast.Attribute) and node.func.attr in ("communicate", "wait", "run", "check_output", "check_call", "call"):
                n += 1
                guarded = False
                for a in ancestors(node):
                    if isinstance(a, ast.Try) and any(node in list(ast.walk(s)) for s in a.body):
                        for hd in a.handlers:
                            types = [None] if hd.type is None else [idx.canon(e, f.module) for e in (hd.type.elts if isinstance(hd.type, ast.Tuple) else [hd.type])]
                            if any(t is None or t in ("subprocess.TimeoutExpired", "builtins.Exception", "subprocess.SubprocessError") for t in types):
                                guarded = True
                r.check(guarded, con + "::timeout", "the expiry of the time limit is caught (and converted)",
                        f"{f.qual} gives a scheduler command a time limit (line {node.lineno}) but lets subprocess.TimeoutExpired escape: it is not a BackendError, so one hanging "
                        "scancel/qdel/bkill ends `gwf cancel` and the remaining targets are never cancelled", loc(node, f.module))
    r.check(n >= 1, f"{call_f.module.relpath}::{call_f.qual}::raises", f"{n} raise/timeout site(s) in the scheduler-command runner, all BackendError",
            "backends.utils.call never raises: a failing scheduler command would pass unnoticed", call_f.where)


def run(ctx):
    idx = ctx.index
    res = ctx.resolver
    h = Hierarchy(idx)
    from ..inline import inlined
    cm = inlined(ctx, idx.func("gwf.plugins.cancel:cancel_many"))
    ccon = f"{cm.module.relpath}::{cm.qual}"

    r1 = ctx.rule("R1", "each target is cancelled inside its own try whose handlers absorb every backend failure; only 'unsupported' aborts", min_instances=3)
    from .evalhelpers import cancel_command_witness
    _wit = {}

    def witness():
        if 'v' not in _wit:
            _wit['v'] = cancel_command_witness(ctx)
        return _wit['v']

    def structural_r1(_ctx, rr):
        loop = None
        for n in walk_no_nested(cm.node):
            if isinstance(n, ast.For) and dotted(n.iter) == cm.positional_params()[1]:
                loop = n
        call = None
        for c in _calls(cm.node):
            if isinstance(c.func, ast.Attribute) and c.func.attr == "cancel" and dotted(c.func.value) == cm.positional_params()[0]:
                call = c
        if loop is None or call is None:
            rr.violation(ccon, "loop over the selected targets calling backend.cancel(target) not found", cm.where)
        else:
            rr.check(dotted(call.args[0]) == dotted(loop.target) if call.args else False, ccon + "::argument", "backend.cancel(<loop target>)",
                     "backend.cancel is not called with the target of the current iteration", loc(call, cm.module))
            tries = [a for a in ancestors(call) if isinstance(a, ast.Try)]
            inside = [t for t in tries if any(t in list(ast.walk(s)) for s in loop.body)]
            if not inside:
                rr.violation(ccon + "::try-in-loop", "backend.cancel(target) is not protected by a try inside the loop: the first target that cannot be cancelled "
                             "(never submitted, already finished, scheduler error) aborts the cancellation of all remaining targets", loc(call, cm.module))
            else:
                t = inside[0]
                # what can backend.cancel raise: BackendError from call(), TargetError from an untracked target
                must_absorb = [f"{EXC}.BackendError", f"{EXC}.TargetError"]
                for exc in must_absorb:
                    handler = None
                    for hd in t.handlers:
                        names = []
                        tp = hd.type
                        for e in (tp.elts if isinstance(tp, ast.Tuple) else [tp] if tp is not None else [None]):
                            names.append(None if e is None else idx.canon(e, cm.module))
                        if any(nm is None or h.is_sub(exc, nm) for nm in names):
                            handler = hd
                            break
                    short = exc.rsplit(".", 1)[1]
                    if handler is None:
                        rr.violation(ccon + f"::absorbs-{short}", f"a {short} raised while cancelling one target (e.g. scancel/qdel/bkill failing) is not caught inside the loop: "
                                     "it ends the command and the remaining targets are never cancelled", loc(t, cm.module))
                    else:
                        leaves = [n for s in handler.body for n in ast.walk(s) if isinstance(n, (ast.Raise, ast.Break, ast.Return))]
                        rr.check(not leaves, ccon + f"::absorbs-{short}", f"{short} is reported and the loop continues",
                                 f"the handler for {short} leaves the loop ({type(leaves[0]).__name__ if leaves else ''}): remaining targets are not cancelled",
                                 loc(handler, cm.module))
                # UnsupportedOperationError handler (if any) comes before the general one and aborts
                uo = [hd for hd in t.handlers if hd.type is not None and (idx.canon(hd.type, cm.module) or "").endswith("UnsupportedOperationError")]
                if uo:
                    first_general = min((i for i, hd in enumerate(t.handlers) if hd.type is None or any(
                        (idx.canon(e, cm.module) or "").endswith(("BackendError", "GWFError", "Exception")) for e in (hd.type.elts if isinstance(hd.type, ast.Tuple) else [hd.type]))),
                        default=len(t.handlers))
                    rr.check(t.handlers.index(uo[0]) < first_general, ccon + "::unsupported-first", "'unsupported' is tested before the general handler", 
                             "the UnsupportedOperationError handler is shadowed by an earlier, more general handler", loc(uo[0], cm.module))

    ctx.structural_or_witness(r1, structural_r1, witness, ccon, both=True)
    rule_scheduler_errors_are_backend_errors(ctx, r1, h)

    r2 = ctx.rule("R2", "exactly the selected targets: patterns via filter_names, else all; cancel uses the job id tracked under the target's own name", min_instances=5)
    cc = idx.func("gwf.plugins.cancel:cancel")
    con = f"{cc.module.relpath}::{cc.qual}"
    def structural_r2(_ctx, rr):
        sel = None
        for n in walk_no_nested(cc.node):
            if isinstance(n, ast.If) and dotted(n.test) == "targets":
                then = [ast.unparse(s.value) for s in n.body if isinstance(s, ast.Assign) and dotted(s.targets[0]) == "targets"]
                els = [ast.unparse(s.value) for s in n.orelse if isinstance(s, ast.Assign) and dotted(s.targets[0]) == "targets"]
                sel = (then, els)
        rr.check(sel is not None and sel[0] == ["filter_names(graph, targets)"] and sel[1] in (["list(graph)"], ["list(graph.targets.values())"], ["graph.targets.values()"]),
                 con + "::selection", "targets = filter_names(graph, targets) if given else all targets",
                 f"the selection is {sel}: it must be the targets matching the patterns, or all targets when none are named", cc.where)
        passed = any(isinstance(c.func, ast.Name) and c.func.id == "cancel_many" and len(c.args) == 2 and dotted(c.args[1]) == "targets" for c in _calls(cc.node))
        rr.check(passed, con + "::pass", "cancel_many(backend, targets) receives the selection", "cancel_many does not receive the selected targets", cc.where)
        # prompt
        pr_ok = False
        for n in walk_no_nested(cc.node):
            if isinstance(n, ast.If):
                t = ast.unparse(n.test)
                if t in ("not force and (not targets)", "not targets and (not force)", "not force and not targets", "not targets and not force", "not (force or targets)", "not (targets or force)"):
                    for c in _calls(n):
                        if idx.canon(c.func, cc.module) == "click.confirm" and any(k.arg == "abort" and isinstance(k.value, ast.Constant) and k.value.value is True for k in c.keywords):
                            # before backend creation
                            first_backend = min((x.lineno for x in ast.walk(cc.node) if isinstance(x, ast.Call) and isinstance(x.func, (ast.Name, ast.Attribute))
                                                 and (idx.canon(x.func, cc.module) or "").endswith("create_backend")), default=10**9)
                            pr_ok = n.lineno < first_backend
        rr.check(pr_ok, con + "::prompt", "cancelling everything asks for confirmation (abort on decline) before the backend is touched",
                 "`gwf cancel` without targets and without --force does not ask for confirmation (aborting on decline) before cancelling", cc.where)

    ctx.structural_or_witness(r2, structural_r2, witness, con, both=True)
    from .shared import rule_name_selection, rule_flag_default
    rule_name_selection(ctx, r2, "the targets of `gwf cancel PATTERN...`")
    rule_flag_default(ctx, r2, "gwf.plugins.cancel:cancel", "--force", "cancelling every target would never ask for confirmation")
    from .shared import rule_targets_argument, rule_calls_bind
    rule_calls_bind(ctx, r2, ("gwf.plugins.cancel",))
    rule_targets_argument(ctx, r2, "gwf.plugins.cancel:cancel", "`gwf cancel [NAMES]`")
    from .evalhelpers import eval_cancel
    from ..symeval import tok
    res, tb_cancel = eval_cancel(ctx)
    tcon = f"{tb_cancel.module.relpath}::{tb_cancel.qual}"
    refused = res.pop("refused", None)
    zero = res.pop("zero", None)
    r2.check(zero == [0], tcon + "::opaque-id", "job ids are opaque: the local pool's first task (id 0) is cancelled like any other",
             f"TrackingBackend.cancel(T) with T tracked as job id 0 (the first task of a fresh local pool) gives {zero}; expected ops.cancel_job(0): the id is judged by its "
             "truth value, so that task is reported as not cancellable and keeps running", tb_cancel.where)
    bad = {k: v for k, v in res.items() if k != "untracked" and v != [tok("ID")]}
    r2.check(not bad, tcon + "::id", "whatever gwf last knew about the job, ops.cancel_job receives exactly the id tracked under the target's own name",
             f"TrackingBackend.cancel(T) with T tracked as <id>: per last-known job state the scheduler's cancel gets {bad} (expected [<id>] always): "
             "a job that is still alive at the scheduler (unknown/error state) would never be cancelled, or another job would be", tb_cancel.where)
    r2.check(refused is not None and refused[0] == "BackendError" and refused[1] == {"T": tok("ID"), "X": tok("IDX")}, tcon + "::refused",
             "a cancellation the scheduler refuses surfaces as BackendError and leaves the job tracked (it is still alive; a retry reaches the scheduler)",
             f"when the scheduler refuses the cancellation, TrackingBackend.cancel ends with {refused[0] if refused else None} and the tracked table is {refused[1] if refused else None}: "
             "the still-live job is forgotten, a later `gwf cancel` of the target never reaches the scheduler and the next run submits a duplicate", tb_cancel.where)
    from .evalhelpers import eval_call_failure
    tbl, call_f = eval_call_failure(ctx, err_text="scancel: Terminating job 42\nscancel: error: Kill job error on job id 42: Invalid job id specified",
                                    ok_text="scancel: Terminating job 42\nscancel: Signal 15 to batch job 42")
    want = {(False, False): tok("STDOUT"), (True, False): "raise BackendError", (False, True): "raise BackendError", (True, True): "raise BackendError"}
    r2.check(tbl == want, f"{call_f.module.relpath}::{call_f.qual}::scancel-failure", "a scancel that exits 0 but reports 'scancel: error: ...' after its verbose lines is a BackendError",
             f"call() over (exit!=0, error line on stderr) for scancel --verbose output gives {tbl}: scancel exits 0 when it fails, so a cancellation that did not happen "
             "would be reported as done", call_f.where)
    r2.check(res.get("untracked") == "TargetError", tcon + "::untracked", "untracked target -> TargetError",
             f"cancelling a target that was never submitted gives {res.get('untracked')} instead of TargetError", tb_cancel.where)
    # each ops.cancel_job issues exactly one scheduler cancel with the id it is given
    from .evalhelpers import eval_cancel_job
    for mod, cname, want in (("gwf.backends.slurm", "SlurmOps", [("scancel", "--verbose", tok("JOB"))]), ("gwf.backends.sge", "SGEOps", [("qdel", tok("JOB"))]),
                             ("gwf.backends.lsf", "LSFOps", [("bkill", tok("JOB"))])):
        calls, m = eval_cancel_job(ctx, mod, cname)
        r2.check(calls == want, f"{m.module.relpath}::{m.qual}", f"{' '.join(want[0][:-1])} <job id>",
                 f"{cname}.cancel_job issues {calls}; expected exactly one `{' '.join(want[0][:-1])} <job id>`"
                 + (" (without --verbose a failed scancel is indistinguishable from success)" if cname == "SlurmOps" else ""), m.where)
    lo = idx.func("gwf.backends.local:LocalOps.cancel_job")
    ok = any(isinstance(c.func, ast.Attribute) and c.func.attr == "cancel" and c.args and dotted(c.args[0]) == lo.positional_params()[1] for c in _calls(lo.node))
    r2.check(ok, f"{lo.module.relpath}::{lo.qual}", "client.cancel(job_id)", "LocalOps.cancel_job does not forward the job id to the pool", lo.where)
    cl = idx.func("gwf.backends.local:Client.cancel")
    def _const(e):
        try:
            return ctx.ev.eval(e, cl.module)
        except Exception:
            return None
    ok = any(isinstance(c.func, ast.Attribute) and c.func.attr == "send" and c.args and _const(c.args[0]) == "cancel_task"
             and any(k.arg == "tid" and dotted(k.value) == cl.positional_params()[1] for k in c.keywords) for c in _calls(cl.node))
    r2.check(ok, f"{cl.module.relpath}::{cl.qual}", "send('cancel_task', tid=job_id)", "Client.cancel does not send cancel_task with the job id", cl.where)

    from .evalhelpers import local_client_witness
    _n, cdiffs, cunsup = local_client_witness(ctx)
    if cunsup is None:
        cd = [d for d in cdiffs if "cancel" in d or "flushed" in d]
        r2.check(not cd, "src/gwf/backends/local.py::LocalOps.cancel_job::request", "cancel_job(id) sends exactly one flushed cancel_task request with that id", "; ".join(cd[:2]), cl.where)
    from .evalhelpers import server_session_witness
    n_w, diffs, unsup = server_session_witness(ctx)
    diffs = [d for d in diffs if "cancel" in d or "scheduler calls" in d]
    if unsup is None:
        r2.check(not diffs, "src/gwf/backends/local.py::Server.handle_connection::cancel_task", "the pool's server hands a cancel_task request to scheduler.cancel_task(<that id>)",
                 "; ".join(diffs[:2]), cl.where)
    # "the most recent job of every selected target": the id must still be on record when `gwf cancel` is typed, whatever gwf commands ran in between and
    # whatever those saw of the job (a job the scheduler reports in an error or unknown state is still alive there)
    from .c07 import rule_tracked_dump
    from .persist import rule_close_writes
    rule_tracked_dump(ctx, r2)
    rule_close_writes(ctx, r2, ("tracked jobs",))
    from .persist import rule_table_ownership
    rule_table_ownership(ctx, r2, ("tracked jobs",))
    from .shared import import_rules as _imp
    _imp(ctx, r2, "C08", only={"R2"})      # the id handed to the scheduler's cancel is the id recorded at submission (same value, same type)
    from .shared import rule_coroutines_awaited
    rule_coroutines_awaited(ctx, r2)
    # "... and of no other target": the tracked jobs consulted are those of the project the command is run in (or given with -f), not of a project named by the environment
    from .evalhelpers import cached_witness, report_witness, find_workflow_witness
    report_witness(r2, "src/gwf/utils.py::find_workflow::project", "src/gwf/utils.py:1", cached_witness(ctx, "find-workflow", find_workflow_witness),
                   "the project whose jobs are cancelled is found from the directory the process runs in (getcwd) or the -f path, whatever $PWD says")
    # "already finished ... is reported and does not prevent the remaining ones from being cancelled": the pool still knows a finished task's id when `gwf cancel` names it
    from .localpool import rule_tasks_never_forgotten
    rule_tasks_never_forgotten(ctx, r2, "a cancel request for a finished target whose entry was dropped raises in the pool's connection handler; the connection dies and every cancel "
                               "request queued behind it in the same `gwf cancel` is lost")
    r3 = ctx.rule("R3", "after cancellation the next run is free to resubmit (CANCELLED/FAILED rows of the decision table)")
    rule_decision_table(ctx, r3)

"""C12 - the local pool never runs more task processes than configured workers (typestate on the core semaphore)."""
import ast

from ..index import dotted, walk_no_nested, loc
from ..paths import RAISE, RETURN
from .localpool import LOCAL, explore_task, scheduler_info, witness


def _run_structural(ctx):
    fi, sem, outs, steps = explore_task(ctx)
    construct = f"{fi.module.relpath}::{fi.qual}"
    ctx.note(f"explored {len(outs)} distinct exits of {fi.qual} ({steps} statement visits); exception edges: "
             "CancelledError at every await outside handlers, TimeoutError at wait_for, OSError at process start / log writes, "
             "KeyError at dependency lookups")

    # R1 no release without acquire
    r1 = ctx.rule("R1", "every release of the core semaphore is preceded by a completed acquire on the same path")
    bad = {}
    for o in outs:
        ln = o.state.facts.get("bad_release")
        if ln:
            bad.setdefault(ln, o)
    n_release = sum(1 for n in walk_no_nested(fi.node) if isinstance(n, ast.Call) and sem._sem_call(n, "release") is n)
    n_release += sum(1 for n in walk_no_nested(fi.node) if isinstance(n, ast.Attribute) and n.attr == "release" and isinstance(n.value, ast.Attribute)
                     and n.value.attr == sem.info["sem"] and not (isinstance(getattr(n, "_parent", None), ast.Call) and n._parent.func is n))
    if bad:
        for ln, o in sorted(bad.items()):
            r1.violation(construct, f"release() at line {ln} is reachable on a path that never acquired a core "
                         f"(exit: {o.kind} {o.payload if not isinstance(o.payload, ast.AST) else ''})",
                         f"{fi.module.relpath}:{ln}", witness(o.state, fi))
    else:
        r1.ok(construct, f"{n_release} release site(s), {len(outs)} exits: no release without acquire", fi.where)
    if n_release == 0:
        r1.violation(construct, "no release of the core semaphore found: every task would keep its core forever", fi.where)

    # who owns a core is a fact about ONE task: the guard of a release may read locals of this invocation, or shared state keyed by the task's unique id -
    # never shared state keyed by something several live tasks can have in common (the target name, the working directory)
    tid_p = fi.positional_params()[1] if len(fi.positional_params()) > 1 else "tid"
    own = f"{fi.module.relpath}::Scheduler::core-ownership-key"
    n_guards = 0
    for n in walk_no_nested(fi.node):
        if not (isinstance(n, ast.Call) and sem._sem_call(n, "release") is n):
            continue
        cur = n
        while getattr(cur, "_parent", None) is not None and cur._parent is not fi.node:
            par = cur._parent
            if isinstance(par, (ast.If, ast.While)) and cur in par.body:
                n_guards += 1
                shared = [a for a in ast.walk(par.test) if isinstance(a, ast.Attribute) and isinstance(a.value, ast.Name) and a.value.id == "self"
                          and a.attr != sem.info["sem"]]
                mentions_tid = any(isinstance(a, ast.Name) and a.id == tid_p for a in ast.walk(par.test))
                if shared and not mentions_tid:
                    others = sorted({a.id for a in ast.walk(par.test) if isinstance(a, ast.Name) and a.id not in ("self", "True", "False", "None")})
                    r1.violation(own, f"the release at line {n.lineno} is guarded by `{ast.unparse(par.test)}`: shared scheduler state (self.{shared[0].attr}) that is not keyed by the task id "
                                 f"`{tid_p}` (it reads {others or 'no per-task value'}). Two live tasks that agree on that key - e.g. targets of the same name from two projects sharing the pool, or "
                                 "a cancelled target resubmitted while the old task is still being killed - release each other's core: more tasks run than there are cores, or a "
                                 "core is lost", loc(par, fi.module))
            cur = par
    r1.ok(own + "::guards", f"{n_guards} guard(s) around release sites examined: ownership is decided per task", fi.where)

    # R2 no leak, no double acquire
    r2 = ctx.rule("R2", "a core that was acquired is released exactly once before the coroutine ends")
    leaks = [o for o in outs if o.state.facts.get("acq")]
    if leaks:
        seen = set()
        for o in leaks:
            k = (o.kind, o.payload if not isinstance(o.payload, ast.AST) else "value")
            if k in seen:
                continue
            seen.add(k)
            r2.violation(construct, f"exit ({o.kind} {k[1] or ''}) with the core still held: the slot is lost for the pool's lifetime",
                         fi.where, witness(o.state, fi))
    else:
        r2.ok(construct, f"all {len(outs)} exits leave with the core released or never taken", fi.where)
    dbl = [o for o in outs if o.state.facts.get("double_acquire")]
    r2.check(not dbl, construct + "::acquire", "no path acquires twice", "a path acquires the core semaphore twice", fi.where,
             witness(dbl[0].state, fi) if dbl else None)

    # R3 kill before release
    r3 = ctx.rule("R3", "on abort paths the kill sequence (ending in proc.wait) precedes the release")
    alive = [o for o in outs if o.state.facts.get("release_while_alive")]
    if alive:
        o = alive[0]
        r3.violation(construct, f"core released at line {o.state.facts['release_while_alive']} while the task's process may still be alive "
                     "(no completed communicate()/kill sequence on this path)", fi.where, witness(o.state, fi))
    else:
        r3.ok(construct, "no release while a started process is unaccounted for", fi.where)

    # R4 acquire dominates process creation
    r4 = ctx.rule("R4", "the core is held whenever the task's process is created")
    starts = [e for e in sem.events if e[0] == "start"]
    if not starts:
        r4.violation(construct, "no process creation found in the task coroutine", fi.where)
    bad_starts = [e for e in starts if not e[3]["acq_at_start"]]
    if bad_starts:
        e = bad_starts[0]
        r4.violation(construct, "process is created on a path that does not hold a core", loc(e[1], fi.module), witness(e[2], fi))
    elif starts:
        r4.ok(construct, f"{len(starts)} abstract start state(s), all with the core held", fi.where)

    # R6 a released core corresponds to a dead process group (composition with the C13 kill-sequence rule)
    r6 = ctx.rule("R6", "the kill sequence that precedes the release ends every process of the task (group SIGKILL, reaped)", min_instances=3)
    from .shared import import_rules
    n6 = import_rules(ctx, r6, "C13", only={"R6"})
    if not n6:
        # the kill sequence lives where the structural rule of C13 does not look (a helper in another module): the evaluated task coroutine decides
        from .evalhelpers import cached_witness, report_witness, task_coroutine_witness
        r6.min_instances = 1
        report_witness(r6, "src/gwf/backends/local.py::Scheduler.try_handle_task::kill-sequence", "src/gwf/backends/local.py:1", cached_witness(ctx, "task", task_coroutine_witness),
                       "on every cancellation / time-limit path with a process: SIGKILL to the process group, the process reaped, then the core released",
                       select=lambda d: "SIGKILL" in d or "reaped" in d or "before the process group has been killed" in d)

    # R5 semaphore size = configured worker count
    r5 = ctx.rule("R5", "the semaphore is sized by the --num-workers value", min_instances=4)
    info = scheduler_info(ctx)
    idx = ctx.index
    sd = info["sem_default"]
    ok = False
    if sd is not None:
        for n in walk_no_nested(sd.node):
            if isinstance(n, ast.Return) and isinstance(n.value, ast.Call):
                c = idx.canon(n.value.func, sd.module)
                sargs = list(n.value.args) + [k.value for k in n.value.keywords if k.arg == "value"]
                pool_cls = idx.lookup(c) if c else None
                from ..index import ClassInfo as _CI
                if isinstance(pool_cls, _CI):
                    # a pool written in the package takes the semaphore's place: its acquire/release protocol is evaluated under the schedules that matter
                    from .poolmodel import pool_protocol_witness
                    from ..loader import AnalysisError
                    n_p, d_p, u_p = pool_protocol_witness(ctx, pool_cls)
                    pcon = f"{pool_cls.module.relpath}::{pool_cls.name}::protocol"
                    if u_p is not None and not d_p:
                        raise AnalysisError(f"{pcon}: the core pool is a class of the package built on constructs this analysis does not model ({u_p}); no verdict")
                    for d_ in d_p[:4]:
                        r5.violation(pcon, d_, pool_cls.where)
                    if not d_p:
                        r5.ok(pcon, f"{n_p} schedules (limit, cancellation of a waiter before and after the hand-off, hand-off with a second waiter): no core lost or handed out twice", pool_cls.where)
                    if len(n.value.args) >= 1 and isinstance(n.value.args[0], ast.Attribute) and dotted(n.value.args[0].value) == "self":
                        info["max_cores"] = n.value.args[0].attr
                        ok = True
                    continue
                if c in ("asyncio.Semaphore", "asyncio.BoundedSemaphore") and len(sargs) == 1:
                    a = sargs[0]
                    if isinstance(a, ast.Attribute) and dotted(a.value) == "self":
                        info["max_cores"] = a.attr
                        ok = True
                    else:
                        r5.violation(f"{sd.module.relpath}::{sd.qual}", f"semaphore sized by {ast.unparse(a)!r}, not by the configured core count",
                                     loc(n, sd.module))
                        ok = None
    if ok:
        r5.ok(f"{sd.module.relpath}::{sd.qual}", f"Semaphore(self.{info['max_cores']})", sd.where)
    elif ok is False:
        r5.violation(f"{LOCAL.replace('.', '/')}.py::Scheduler.{info['sem']}", "cannot find the semaphore initialiser `Semaphore(self.<cores>)`",
                     info["cls"].where)
    # Scheduler(working_dir, max_cores) in start_cluster_async
    sca = idx.func(f"{LOCAL}:start_cluster_async")
    field_order = [f[0] for f in info["cls"].fields if isinstance(f[2], ast.Call) or f[1] is not None]
    found = False
    for n in walk_no_nested(sca.node):
        if isinstance(n, ast.Call) and idx.canon(n.func, sca.module) == f"{LOCAL}.Scheduler":
            found = True
            val = None
            if info["max_cores"] in field_order:
                pos = field_order.index(info["max_cores"])
                if len(n.args) > pos:
                    val = n.args[pos]
            for kw in n.keywords:
                if kw.arg == info["max_cores"]:
                    val = kw.value
            params = sca.positional_params()
            if isinstance(val, ast.Name) and val.id in params:
                r5.ok(f"{sca.module.relpath}::{sca.qual}", f"Scheduler(..., {info['max_cores']}={val.id}) from parameter #{params.index(val.id)}", loc(n, sca.module))
                ctx.shared["cores_param_index"] = params.index(val.id)
            else:
                r5.violation(f"{sca.module.relpath}::{sca.qual}", f"Scheduler is constructed with {info['max_cores']}="
                             f"{ast.unparse(val) if val is not None else '<default>'} instead of the caller's worker count", loc(n, sca.module))
    if not found:
        r5.violation(f"{sca.module.relpath}::{sca.qual}", "Scheduler is not constructed here", sca.where)
    # start_cluster forwards *args/**kwargs
    sc = idx.func(f"{LOCAL}:start_cluster")
    fwd = False
    for n in walk_no_nested(sc.node):
        if isinstance(n, ast.Call) and idx.canon(n.func, sc.module) == f"{LOCAL}.start_cluster_async":
            star = [a for a in n.args if isinstance(a, ast.Starred)]
            if star and sc.node.args.vararg and dotted(star[0].value) == sc.node.args.vararg.arg:
                fwd = True
            elif len(n.args) >= 2 and all(isinstance(a, ast.Name) for a in n.args):
                fwd = [a.id for a in n.args] == sc.positional_params()[: len(n.args)]
    r5.check(fwd, f"{sc.module.relpath}::{sc.qual}", "positional arguments forwarded unchanged to start_cluster_async",
             "start_cluster does not forward its positional arguments unchanged to start_cluster_async", sc.where)
    # workers command
    wk = idx.func("gwf.plugins.workers:workers")
    opt_param = None
    for d in ctx.index.expanded_decorators(wk):
        if isinstance(d, ast.Call) and idx.canon(d.func, wk.module) == "click.option":
            names = [a.value for a in d.args if isinstance(a, ast.Constant) and isinstance(a.value, str)]
            if "--num-workers" in names:
                opt_param = "num_workers"
                for nm in names:
                    if not nm.startswith("-"):
                        opt_param = nm
    ok = False
    for n in walk_no_nested(wk.node):
        if isinstance(n, ast.Call) and idx.canon(n.func, wk.module) in (f"{LOCAL}.start_cluster", f"{LOCAL}.start_cluster_async"):
            pos = ctx.shared.get("cores_param_index", 1)
            val = n.args[pos] if len(n.args) > pos else None
            for kw in n.keywords:
                if kw.arg == "max_cores":
                    val = kw.value
            if isinstance(val, ast.Name) and val.id == opt_param:
                ok = True
            else:
                r5.violation(f"{wk.module.relpath}::{wk.qual}", f"worker count passed to the pool is {ast.unparse(val) if val is not None else '<missing>'}, "
                             f"not the --num-workers value", loc(n, wk.module))
                ok = None
    if ok:
        r5.ok(f"{wk.module.relpath}::{wk.qual}", f"--num-workers -> {opt_param} -> start_cluster(.., {opt_param}, ..)", wk.where)
    elif ok is False:
        r5.violation(f"{wk.module.relpath}::{wk.qual}", "the workers command does not start the pool with its --num-workers value", wk.where)
    # the value as click converts it (declared type=) and as the command body passes it on: an integer, the one that was given
    from .evalhelpers import cached_witness, report_witness, workers_command_witness
    report_witness(r5, f"{wk.module.relpath}::{wk.qual}::value", wk.where, cached_witness(ctx, "workers-cmd", workers_command_witness),
                   "`gwf workers -n 1|2|7` start the pool with exactly that many cores; non-integers are refused by click",
                   select=lambda d: "cores" in d or "core count" in d or "ends with" in d)
    # the pool has ONE semaphore for its lifetime: it is created with the scheduler and never replaced (a task that holds a core of the old one releases into
    # whichever object the field holds then - a "repaired" pool has more slots than cores)
    from .localpool import removals_from
    from ..index import loc as _loc
    semattr = info["sem"]
    n_re = 0
    for m_ in info["cls"].methods.values():
        is_init = m_.name in ("__init__", "__attrs_post_init__") or any((d_ or "").endswith(".default") for d_ in m_.decorator_names())
        for node_, attr_, how_ in removals_from(m_.node, {semattr}):
            if how_ == "rebinding" and not is_init:
                n_re += 1
                r5.violation(f"{m_.module.relpath}::{m_.qual}::replaces-{semattr}", f"Scheduler.{m_.name} replaces self.{semattr} while the pool runs: a task that obtained a core from "
                             "the old semaphore gives it back to the new one, which then counts one slot more than there are cores (and tasks waiting on the old one wait forever)",
                             _loc(node_, m_.module))
    r5.ok(f"{info['cls'].module.relpath}::Scheduler.{semattr}::created-once", f"self.{semattr} is bound at construction only ({n_re} later rebindings)", info["cls"].where)


def run(ctx):
    """Structural rules first; the task coroutine evaluated under fault and cancellation injection decides where they do not recognise the shape."""
    from ..loader import AnalysisError
    from .evalhelpers import cached_witness, task_coroutine_witness, cancel_task_witness
    wit = cached_witness(ctx, "task", task_coroutine_witness)
    n0 = len(ctx.rules)
    try:
        _run_structural(ctx)
    except (AnalysisError, Exception) as exc:
        if isinstance(exc, (NameError, ImportError, UnboundLocalError)):
            raise       # a defect of the checker itself, never a reason to fall back
        if wit[2] is not None:
            raise  # neither the structural rules nor the evaluation can follow this code
        r0 = ctx.rule("R0", "the structural rules cannot follow this shape of the task coroutine; decided by evaluation under fault and cancellation injection")
        r0.info("src/gwf/backends/local.py::Scheduler.try_handle_task", f"structural analysis stopped: {type(exc).__name__}: {str(exc)[:120]}")
        for r in ctx.rules[n0:]:
            r.min_instances = 0
    rules = ctx.rules[n0:]
    pred = lambda c: any(k in c for k in ("try_handle_task", "_gentle_kill", "create_subprocess", "kill"))
    ctx.reconcile(rules, pred, wit, "src/gwf/backends/local.py::Scheduler.try_handle_task", "src/gwf/backends/local.py:1")

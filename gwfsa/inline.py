"""AST-level inlining of small private helpers, so that rules see through 'extract method' refactorings.

`inlined(ctx, finfo, keep)` returns a FuncInfo-like view whose body has every statement-level call to a private helper
(defined in the same module, not recursive, not in `keep`) replaced by the helper's body with parameters substituted.
Early returns in the helper are turned into single-exit form:  `for __once_k in (0,): ... __ret_k = X; break ...`.
Supported call sites:  `helper(..)` / `await helper(..)` as a statement, `x = [await] helper(..)`, `return [await] helper(..)`,
`if [not] [await] helper(..):`, and `with helper(..) as x` is left alone.  Anything else is left un-inlined.
"""
import ast

from .astutil import clone

from .index import FUNC_TYPES, FuncInfo, dotted, walk_no_nested

MAX_STMTS = 160


class _Subst(ast.NodeTransformer):
    def __init__(self, mapping, rename, suffix):
        self.mapping = mapping  # param name -> expr node
        self.rename = rename  # local name -> new name
        self.suffix = suffix

    def visit_Name(self, node):
        if node.id in self.mapping:
            new = clone(self.mapping[node.id])
            return ast.copy_location(new, node)
        if node.id in self.rename:
            return ast.copy_location(ast.Name(id=self.rename[node.id], ctx=node.ctx), node)
        return node

    def visit_arg(self, node):
        return node

    def _comp(self, node):
        shadow = {x.id for g in node.generators for x in ast.walk(g.target) if isinstance(x, ast.Name)}
        saved = (self.mapping, self.rename)
        self.mapping = {k: v for k, v in self.mapping.items() if k not in shadow}
        self.rename = {k: v for k, v in self.rename.items() if k not in shadow}
        try:
            # the first iterable is evaluated in the enclosing scope
            first = node.generators[0].iter
            self.mapping, self.rename = saved
            new_first = self.visit(first)
            self.mapping = {k: v for k, v in saved[0].items() if k not in shadow}
            self.rename = {k: v for k, v in saved[1].items() if k not in shadow}
            self.generic_visit(node)
            node.generators[0].iter = new_first
        finally:
            self.mapping, self.rename = saved
        return node

    visit_ListComp = visit_SetComp = visit_GeneratorExp = visit_DictComp = _comp

    def visit_FunctionDef(self, node):
        return node  # nested defs are not touched

    visit_AsyncFunctionDef = visit_FunctionDef
    visit_Lambda = visit_FunctionDef


class _ReturnRewriter(ast.NodeTransformer):
    """return X  ->  __ret = X; __done = True; break   (inside the synthetic once-loop); propagate out of inner loops."""

    def __init__(self, ret_name, done_name):
        self.ret = ret_name
        self.done = done_name
        self.loop_depth = 0
        self.used_done = False

    def visit_FunctionDef(self, node):
        return node

    visit_AsyncFunctionDef = visit_FunctionDef
    visit_Lambda = visit_FunctionDef

    def visit_Return(self, node):
        out = []
        val = node.value if node.value is not None else ast.Constant(value=None)
        out.append(ast.copy_location(ast.Assign(targets=[ast.Name(id=self.ret, ctx=ast.Store())], value=val), node))
        if self.loop_depth > 0:
            self.used_done = True
            out.append(ast.copy_location(ast.Assign(targets=[ast.Name(id=self.done, ctx=ast.Store())], value=ast.Constant(value=True)), node))
        brk = ast.Break()
        brk._from_return = True
        out.append(ast.copy_location(brk, node))
        return out

    def _loop(self, node):
        self.loop_depth += 1
        node.body = self._stmts(node.body)
        node.orelse = self._stmts(node.orelse)
        self.loop_depth -= 1
        if self.used_done:
            gb = ast.Break()
            gb._from_return = True
            guard = ast.If(test=ast.Name(id=self.done, ctx=ast.Load()), body=[gb], orelse=[])
            ast.copy_location(guard, node)
            ast.fix_missing_locations(guard)
            return [node, guard]
        return node

    def visit_For(self, node):
        return self._loop(node)

    visit_While = visit_For
    visit_AsyncFor = visit_For

    def _stmts(self, stmts):
        out = []
        for st in stmts:
            r = self.visit(st)
            if isinstance(r, list):
                out.extend(r)
            elif r is not None:
                out.append(r)
        return out

    def generic_visit(self, node):
        for fld in ("body", "orelse", "finalbody"):
            v = getattr(node, fld, None)
            if isinstance(v, list) and v and isinstance(v[0], ast.stmt):
                setattr(node, fld, self._stmts(v))
        for h in getattr(node, "handlers", []):
            h.body = self._stmts(h.body)
        return node


class InlinedView:
    """Quacks like FuncInfo for the rules (node, module, qual, key, cls, outer, nested, params...)."""

    def __init__(self, finfo, node, inlined_names):
        self.__dict__["_fi"] = finfo
        self.__dict__["node"] = node
        self.__dict__["inlined_names"] = inlined_names

    def __getattr__(self, k):
        return getattr(self.__dict__["_fi"], k)


def _is_recursive(ctx, fi):
    for c in ast.walk(fi.node):
        if isinstance(c, ast.Call) and isinstance(c.func, (ast.Name, ast.Attribute)):
            n = c.func.id if isinstance(c.func, ast.Name) else c.func.attr
            if n == fi.name:
                return True
    return False


def _callee(ctx, call, finfo, keep):
    f = call.func
    name = f.id if isinstance(f, ast.Name) else f.attr if isinstance(f, ast.Attribute) else None
    if name is None or name in keep or name.startswith("__"):
        return None
    if isinstance(f, ast.Attribute) and dotted(f.value) not in ("self", "cls"):
        return None
    if not name.startswith("_") and not (isinstance(f, ast.Attribute) and dotted(f.value) == "self"):
        return None  # public module-level functions are anchors of their own
    res = [c for c in ctx.resolver.callees(call, finfo, {}) if isinstance(c, FuncInfo)]
    if len(res) != 1:
        return None
    cal = res[0]
    if cal.module is not finfo.module or cal.key == finfo.key or cal.outer is not None and cal.outer.key != finfo.key and cal.outer.key != getattr(finfo.outer, "key", None):
        return None
    if any(isinstance(c, ast.Call) and ((isinstance(c.func, ast.Name) and c.func.id == finfo.name) or (isinstance(c.func, ast.Attribute) and c.func.attr == finfo.name))
           for c in ast.walk(cal.node)):
        return None  # mutual recursion with the caller (e.g. a memo wrapper)
    if _is_recursive(ctx, cal) or sum(1 for _ in ast.walk(cal.node) if isinstance(_, ast.stmt)) > MAX_STMTS:
        return None
    if any(isinstance(n, (ast.Yield, ast.YieldFrom)) for n in ast.walk(cal.node)):
        return None
    if cal.node.args.vararg or cal.node.args.kwarg:
        return None
    decos = cal.decorator_names()
    if any(d and (d.endswith("cache") or d in ("property", "classmethod", "staticmethod") or ".default" in d or ".validator" in d) for d in decos):
        return None
    return cal


def _bind(call, cal):
    """param -> arg expr (None if not bindable)."""
    params = cal.positional_params()
    if cal.cls is not None and params and params[0] in ("self", "cls"):
        params = params[1:]
    mapping = {}
    args = list(call.args)
    if any(isinstance(a, ast.Starred) for a in args) or any(k.arg is None for k in call.keywords):
        return None
    if len(args) > len(params):
        return None
    for p, a in zip(params, args):
        mapping[p] = a
    allp = cal.params()
    for k in call.keywords:
        if k.arg not in allp:
            return None
        mapping[k.arg] = k.value
    # defaults
    a = cal.node.args
    pos = [x.arg for x in a.posonlyargs + a.args]
    for p, d in zip(pos[len(pos) - len(a.defaults):], a.defaults):
        mapping.setdefault(p, d)
    for p, d in zip([x.arg for x in a.kwonlyargs], a.kw_defaults):
        if d is not None:
            mapping.setdefault(p, d)
    need = [p for p in params + [x.arg for x in a.kwonlyargs] if p not in mapping]
    if need:
        return None
    return mapping


def _expand(ctx, finfo, call, cal, k, assign_targets=()):
    """Statements replacing the call + the name of the return variable."""
    mapping = _bind(call, cal)
    if mapping is None:
        return None
    suffix = f"__h{k}"
    pre = []
    subst = {}
    # a parameter that is assigned inside the helper, or whose argument is not a simple expression, gets a local copy
    comp_scoped = set()
    for n in walk_no_nested(cal.node):
        if isinstance(n, (ast.ListComp, ast.SetComp, ast.GeneratorExp, ast.DictComp)):
            for g in n.generators:
                comp_scoped.update(id(x) for x in ast.walk(g.target))
    assigned = {n.id for n in walk_no_nested(cal.node) if isinstance(n, ast.Name) and isinstance(n.ctx, (ast.Store, ast.Del)) and id(n) not in comp_scoped}
    for p, a in mapping.items():
        simple = isinstance(a, (ast.Name, ast.Constant)) or (isinstance(a, ast.Attribute) and dotted(a) is not None)
        if p in assigned or not simple:
            nm = p + suffix
            pre.append(ast.Assign(targets=[ast.Name(id=nm, ctx=ast.Store())], value=clone(a)))
            subst[p] = ast.Name(id=nm, ctx=ast.Load())
        else:
            subst[p] = a
    locals_ = {n for n in assigned if n not in mapping}
    for n in walk_no_nested(cal.node):
        if isinstance(n, ast.ExceptHandler) and n.name:
            locals_.add(n.name)
    caller_names = {n.id for n in ast.walk(finfo.node) if isinstance(n, ast.Name)} | set(finfo.params())
    rename = {n: n + suffix for n in locals_ if n in caller_names and n not in assign_targets}
    body = [clone(s) for s in cal.node.body]
    if body and isinstance(body[0], ast.Expr) and isinstance(body[0].value, ast.Constant) and isinstance(body[0].value.value, str):
        body = body[1:]
    tr = _Subst(subst, rename, suffix)
    body = [tr.visit(s) for s in body]
    for s in body:
        for h in ast.walk(s):
            if isinstance(h, ast.ExceptHandler) and h.name in rename:
                h.name = rename[h.name]
    ret, done = f"__ret{suffix}", f"__done{suffix}"
    has_return = any(isinstance(n, ast.Return) for s in body for n in ast.walk(s) if not isinstance(n, FUNC_TYPES))
    early = any(isinstance(n, ast.Return) for s in body[:-1] for n in ast.walk(s)) or (body and not isinstance(body[-1], ast.Return) and has_return)
    stmts = list(pre)
    if not has_return:
        stmts += body
        stmts.append(ast.Assign(targets=[ast.Name(id=ret, ctx=ast.Store())], value=ast.Constant(value=None)))
    elif not early:
        last = body[-1]
        stmts += body[:-1]
        stmts.append(ast.Assign(targets=[ast.Name(id=ret, ctx=ast.Store())], value=last.value if last.value is not None else ast.Constant(value=None)))
    else:
        rw = _ReturnRewriter(ret, done)
        inner = rw._stmts(body)
        init = [ast.Assign(targets=[ast.Name(id=ret, ctx=ast.Store())], value=ast.Constant(value=None))]
        if rw.used_done:
            init.append(ast.Assign(targets=[ast.Name(id=done, ctx=ast.Store())], value=ast.Constant(value=False)))
        loop = ast.For(target=ast.Name(id=f"__once{suffix}", ctx=ast.Store()), iter=ast.Tuple(elts=[ast.Constant(value=0)], ctx=ast.Load()),
                       body=inner or [ast.Pass()], orelse=[])
        stmts += init + [loop]
    for s in stmts:
        ast.copy_location(s, call)
        ast.fix_missing_locations(s)
        # keep the helper's own line numbers where they exist (better witnesses)
    return stmts, ret


def _unwrap(expr):
    """(call, awaited, negated) for [not] [await] call."""
    neg = False
    if isinstance(expr, ast.UnaryOp) and isinstance(expr.op, ast.Not):
        expr, neg = expr.operand, True
    aw = False
    if isinstance(expr, ast.Await):
        expr, aw = expr.value, True
    if isinstance(expr, ast.Call):
        return expr, aw, neg
    return None, aw, neg


def inlined(ctx, finfo, keep=(), depth=2):
    key = ("inlined", finfo.key, tuple(sorted(keep)), depth)
    if key in ctx.shared:
        return ctx.shared[key]
    node = clone(finfo.node)
    counter = [0]
    names = []

    def process(stmts, level):
        out = []
        for st in stmts:
            # recurse into compound statements first
            for fld in ("body", "orelse", "finalbody"):
                v = getattr(st, fld, None)
                if isinstance(v, list) and v and isinstance(v[0], ast.stmt) and not isinstance(st, FUNC_TYPES + (ast.ClassDef,)):
                    setattr(st, fld, process(v, level))
            for h in getattr(st, "handlers", []):
                h.body = process(h.body, level)
            target_expr = None
            kind = None
            if isinstance(st, ast.Expr):
                target_expr, kind = st.value, "expr"
            elif isinstance(st, ast.Assign) and len(st.targets) == 1 and isinstance(st.targets[0], (ast.Name, ast.Tuple)):
                target_expr, kind = st.value, "assign"
            elif isinstance(st, ast.Return) and st.value is not None:
                target_expr, kind = st.value, "return"
            elif isinstance(st, ast.If):
                target_expr, kind = st.test, "if"
            if target_expr is None:
                out.append(st)
                continue
            call, aw, neg = _unwrap(target_expr)
            if call is None or (neg and kind != "if"):
                out.append(st)
                continue
            call._module = finfo.module
            for sub in ast.walk(call):
                sub._module = finfo.module
            cal = _callee(ctx, call, finfo, keep) if level < depth else None
            if cal is None or (cal.is_async and not aw) or (aw and not cal.is_async):
                out.append(st)
                continue
            counter[0] += 1
            tnames = ()
            if kind == "assign":
                tnames = tuple(x.id for x in ast.walk(st.targets[0]) if isinstance(x, ast.Name))
            exp = _expand(ctx, finfo, call, cal, counter[0], tnames)
            if exp is None:
                out.append(st)
                continue
            stmts2, ret = exp
            names.append(cal.name)
            stmts2 = process(stmts2, level + 1)
            out.extend(stmts2)
            retname = ast.Name(id=ret, ctx=ast.Load())
            if kind == "assign":
                new = ast.Assign(targets=st.targets, value=retname)
            elif kind == "return":
                new = ast.Return(value=retname)
            elif kind == "if":
                st.test = ast.UnaryOp(op=ast.Not(), operand=retname) if neg else retname
                new = st
            else:
                new = None
            if new is not None:
                ast.copy_location(new, st)
                ast.fix_missing_locations(new)
                out.append(new)
        return out

    node.body = process(node.body, 0)
    ast.fix_missing_locations(node)
    for n in ast.walk(node):
        for child in ast.iter_child_nodes(n):
            child._parent = n
        n._module = finfo.module
    node._parent = getattr(finfo.node, "_parent", None)
    # nested function infos (closures) keep pointing at the originals
    for n in ast.walk(node):
        if isinstance(n, FUNC_TYPES) and n is not node:
            orig = finfo.nested.get(n.name)
            if orig is not None:
                n._finfo = orig
    node._finfo = finfo
    view = InlinedView(finfo, node, names) if names else finfo
    ctx.shared[key] = view
    return view

"""gwfsa - repository-specific static analysis for gwforg/gwf (stdlib only).

Nothing in /repo is ever imported or executed: every fact is derived from the
parsed source text of the current working tree.
"""

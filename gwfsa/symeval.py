"""Template-domain abstract evaluation of *pure* string/dict-building functions of the repo.

Runtime strings (a spec, a directory, an option value, a job id) are opaque tokens such as "⟦SPEC⟧"; the
interpreter folds the pure code that assembles them (format, join, +, os.path.join, shlex.quote, dict updates, loops over
literal tables) and returns the resulting *template*.  Nothing with an effect is interpretable: I/O, subprocess, logging
and unknown calls are either recorded as events (when a rule asks for it) or make the evaluation fail, in which case
the rule reports the obligation as not discharged.  No repo code is imported or executed by Python itself.
"""
import ast
import os.path
import re
import shlex
import unicodedata
from collections import ChainMap

from .consteval import CantEval, DefaultDict, EnumVal, FuncRef
from .index import ClassInfo, FuncInfo, dotted


def tok(name):
    return f"⟦{name}⟧"


def _simple_field_default(value):
    """Default of a declared field when it is a literal or a dict/list/set factory; Ellipsis otherwise."""
    if isinstance(value, ast.Constant):
        return value.value
    if isinstance(value, ast.Call):
        for kw in value.keywords:
            if kw.arg == "default" and isinstance(kw.value, ast.Constant):
                return kw.value.value
            if kw.arg in ("factory", "default_factory") and isinstance(kw.value, ast.Name) and kw.value.id in ("dict", "list", "set"):
                return {"dict": dict, "list": list, "set": set}[kw.value.id]()
    return Ellipsis


class Obj:
    """A symbolic object with attributes (target, self, backend ...)."""

    def __init__(self, _name="obj", **attrs):
        self.__dict__["_name"] = _name
        self.__dict__["_attrs"] = dict(attrs)

    def __getattr__(self, k):
        try:
            return self.__dict__["_attrs"][k]
        except KeyError:
            pass
        # a stand-in built by a witness with only the attributes it cares about: a field the class declares with a simple default (a flag, a counter,
        # a cache made by factory=dict ...) exists on every real instance, so it exists here too, per instance
        cls = self.__dict__["_attrs"].get("__class__")
        fields = getattr(cls, "fields", None)
        if fields and not k.startswith("__"):
            for name, _ann, value in fields:
                if name != k:
                    continue
                v = _simple_field_default(value)
                if v is not Ellipsis:
                    self.__dict__["_attrs"][k] = v
                    return v
        raise AttributeError(k)

    def __setattr__(self, k, v):
        self.__dict__["_attrs"][k] = v

    def __repr__(self):
        return f"<Obj {self._name}>"

    def __str__(self):
        cls = self._attrs.get("__class__")
        it = _ACTIVE_INTERP[0]
        if it is not None and isinstance(cls, ClassInfo):
            m = it.index.method(cls, "__str__")
            if m is not None:
                return it.call(m, (), {}, self_obj=self, depth=5)
        if self._name.startswith("exc:") or self._attrs.get("__exc__"):   # str(exc) is the message
            a = self._attrs.get("args")
            if isinstance(a, tuple) and len(a) == 1:
                return str(a[0])
            if isinstance(a, tuple) and not a:
                return ""
            if isinstance(a, tuple):
                return str(a)
            if self._attrs.get("detail") is not None:
                return str(self._attrs["detail"])
        return repr(self)


_ACTIVE_INTERP = [None]      # the interpreter whose evaluation is under way (str() of an instance dispatches to the class's own __str__)
NOT_MODELLED = "[not-modelled]"


class Unsupported(Exception):
    """The checker's interpreter met a construct it does not model.  Its text carries a marker: a verdict whose message derives from such an evaluation
    is never reported as a VIOLATION (report.Rule.violation turns it into an analysis error) - the code may be perfectly fine."""

    def __str__(self):
        return f"{NOT_MODELLED} {super().__str__()}"


class _Return(Exception):
    def __init__(self, value):
        self.value = value


class _Break(Exception):
    pass


class _Continue(Exception):
    pass


class HookDecline(Exception):
    """Raised by an "attr:<name>" hook that stands for a library method when the receiver turns out to be an instance of a repository class that defines the
    method itself: the program's own method is evaluated instead."""


class Raised(Exception):
    """The interpreted code raised (e.g. KeyError on a missing option)."""

    def __init__(self, kind, detail=""):
        super().__init__(f"{kind}: {detail}")
        self.kind = kind
        self.detail = detail
        self.obj = None


def _join(*parts):
    """os.path.join on strings that may contain opaque tokens (an absolute component restarts the path)."""
    out = ""
    for p in parts:
        p = str(p)
        if p.startswith("/") or not out:
            out = p
        elif out.endswith("/"):
            out += p
        else:
            out += "/" + p
    return out


def _defaultdict(factory, *a, **k):
    import collections
    real = {"builtins.set": set, "builtins.list": list, "builtins.dict": dict, "builtins.int": int}
    f = real.get(getattr(factory, "name", None))
    if factory is not None and f is None:
        raise Unsupported("defaultdict factory")
    return collections.defaultdict(f, *a, **k)


import pathlib as _pathlib  # noqa: E402


class SymPath(_pathlib.PurePosixPath):
    """pathlib.Path of the analysed program: the PURE part of pathlib (joining, parents, suffixes - no file-system access) computed for real on
    POSIX semantics, possibly over symbolic tokens; anything that would touch the file system is a hook of the witness or not modelled."""


SYMPATH_PROPS = {"parent", "name", "suffix", "suffixes", "stem", "parts", "anchor", "parents", "root", "drive"}
SYMPATH_PURE = {"joinpath", "with_suffix", "with_name", "with_stem", "is_absolute", "relative_to", "is_relative_to", "match", "as_posix", "is_reserved",
                "__truediv__", "__rtruediv__", "__str__", "__fspath__", "__eq__", "__ne__", "__hash__", "__lt__", "__le__", "__gt__", "__ge__", "with_segments"}


def _sympath(*parts):
    return SymPath(*[_fspath(x) for x in parts])


def _sympath_method(p, name, args, kwargs):
    """Pure-path methods that need a model: absolute() anchors WITHOUT normalising ('..' stays), resolve() anchors, normalises and follows links."""
    s = str(p)
    if name == "absolute":
        return p if (s.startswith("/") and "⟦" not in s.split("/")[0]) else SymPath(tok("anch:" + s))
    if name == "resolve":
        if s.startswith("/") and "⟦" not in s:
            return SymPath(os.path.normpath(s))
        return SymPath(tok("abs:" + s))
    if name == "expanduser":
        return SymPath(tok("home:" + s)) if s.startswith("~") else p
    raise Unsupported(f"pathlib method {name} (file-system access) without a hook")


def _fspath(p):
    if isinstance(p, _pathlib.PurePath):
        return str(p)
    if isinstance(p, Obj):
        try:
            return getattr(p, "__fspath__")
        except AttributeError:
            raise Raised("TypeError", "expected str, bytes or os.PathLike object")
    if isinstance(p, str):
        return p
    raise Raised("TypeError", "expected str, bytes or os.PathLike object")


from collections.abc import Mapping as _abc_Mapping  # noqa: E402
import types as _types  # noqa: E402

PURE_BUILTINS = {
    "object": lambda: Obj("sentinel"), "id": id, "iter": iter, "bytes": bytes, "divmod": divmod, "round": round, "ord": ord, "chr": chr, "format": format,
    "int": int, "str": str, "len": len, "hash": hash, "id": id, "set": set, "list": list, "dict": dict, "sorted": sorted, "enumerate": enumerate, "zip": zip,
    "range": range, "min": min, "max": max, "any": any, "all": all, "tuple": tuple, "frozenset": frozenset, "bool": bool, "float": float,
    "isinstance": None, "hasattr": None, "repr": repr, "abs": abs, "sum": sum, "reversed": reversed, "dict.fromkeys": dict.fromkeys,
    "print": lambda *a, **k: None,
}
PURE_EXTERNAL = {
    "os.path.join": lambda *a: _join(*a),
    "os.path.basename": os.path.basename,
    "os.path.splitext": os.path.splitext,
    "os.path.dirname": os.path.dirname,
    "os.fspath": lambda p: _fspath(p),
    "shlex.quote": lambda s: tok("quote:" + s) if "⟦" in s else shlex.quote(s),
    "re.compile": re.compile, "re.sub": re.sub, "re.findall": re.findall, "re.search": re.search, "re.match": re.match, "re.fullmatch": re.fullmatch,
    "copy.copy": lambda x: x.copy() if hasattr(x, "copy") else x,
    "unicodedata.category": unicodedata.category, "unicodedata.normalize": unicodedata.normalize,
    "os.path.expanduser": lambda p: tok("home:" + str(p)) if str(p).startswith("~") else p,
    "os.path.expandvars": lambda p: tok("vars:" + str(p)) if "$" in str(p) else p,
    "os.path.normcase": lambda p: p,
    "json.loads": lambda s_, *a, **k: __import__("json").loads(s_),
    "json.dumps": lambda o, *a, **k: __import__("json").dumps(o, sort_keys=bool(k.get("sort_keys")), indent=k.get("indent"), default=(str if k.get("default") is not None else None)),
    "itertools.chain": lambda *its: __import__("itertools").chain(*its),
    "itertools.chain.from_iterable": lambda it: __import__("itertools").chain.from_iterable(it),
    "itertools.islice": lambda *a: __import__("itertools").islice(*a),
    "itertools.repeat": lambda *a: __import__("itertools").repeat(*a),
    "itertools.product": lambda *a, **k: __import__("itertools").product(*a, **k),
    "itertools.count": lambda *a: __import__("itertools").count(*a),
    "itertools.zip_longest": lambda *a, **k: __import__("itertools").zip_longest(*a, **k),
    "itertools.groupby": lambda it, key=None: [(k_, list(g_)) for k_, g_ in __import__("itertools").groupby(it, key)],
    "itertools.accumulate": lambda *a, **k: __import__("itertools").accumulate(*a, **k),
    "itertools.starmap": lambda f_, it: __import__("itertools").starmap(f_, it),
    "itertools.takewhile": lambda f_, it: __import__("itertools").takewhile(f_, it),
    "itertools.dropwhile": lambda f_, it: __import__("itertools").dropwhile(f_, it),
    "itertools.filterfalse": lambda f_, it: __import__("itertools").filterfalse(f_, it),
    "itertools.compress": lambda *a: __import__("itertools").compress(*a),
    "itertools.pairwise": lambda it: __import__("itertools").pairwise(it),
    "itertools.combinations": lambda *a: __import__("itertools").combinations(*a),
    "itertools.permutations": lambda *a: __import__("itertools").permutations(*a),
    "itertools.tee": lambda *a: __import__("itertools").tee(*a),
    "itertools.batched": lambda it, n_: __import__("itertools").batched(it, n_),
    "functools.reduce": lambda *a: __import__("functools").reduce(*a),
    "xml.etree.ElementTree.fromstring": lambda s_, *a, **k: __import__("xml.etree.ElementTree").etree.ElementTree.fromstring(s_),
    "time.perf_counter": lambda: 0.0, "time.monotonic": lambda: 0.0, "time.process_time": lambda: 0.0,
    "fnmatch.filter": lambda names, pat: __import__("fnmatch").filter(list(names), pat),
    "fnmatch.fnmatch": lambda n, pat: __import__("fnmatch").fnmatch(n, pat),
    "fnmatch.fnmatchcase": lambda n, pat: __import__("fnmatch").fnmatchcase(n, pat),
    "fnmatch.translate": lambda pat: __import__("fnmatch").translate(pat),
    "re.escape": re.escape,
    "collections.ChainMap": ChainMap,
    # who am I: the environment's answer and the uid's answer are different symbolic accounts (they differ under `su -m`, `sudo -E`, containers, cron wrappers)
    "getpass.getuser": lambda: "env-account", "os.getlogin": lambda: "env-account", "os.getuid": lambda: 1000, "os.geteuid": lambda: 1000,
    "pwd.getpwuid": lambda uid: Obj("pwent", pw_name="uid-account", pw_uid=uid, pw_dir="/home/uid-account"),
    "socket.gethostname": lambda: tok("HOSTNAME"), "platform.node": lambda: tok("HOSTNAME"), "os.uname": lambda: Obj("uname", nodename=tok("HOSTNAME"), sysname="Linux"),
    "pathlib.Path": lambda *a: _sympath(*a), "pathlib.PurePath": lambda *a: _sympath(*a), "pathlib.PosixPath": lambda *a: _sympath(*a),
    "pathlib.PurePosixPath": lambda *a: _sympath(*a),
    "weakref.WeakKeyDictionary": lambda *a, **k: dict(*a, **k), "weakref.WeakValueDictionary": lambda *a, **k: dict(*a, **k), "weakref.WeakSet": lambda *a: set(*a),
    "textwrap.dedent": lambda t: __import__("textwrap").dedent(t), "textwrap.indent": lambda t, p_, *a: __import__("textwrap").indent(t, p_),
    "inspect.cleandoc": lambda t: __import__("inspect").cleandoc(t),
    "os.path.isabs": os.path.isabs,
    "os.path.normpath": lambda p: tok("norm:" + p) if "⟦" in p else os.path.normpath(p),
    "os.path.abspath": lambda p: tok("abs:" + p) if "⟦" in p or not os.path.isabs(p) else os.path.normpath(p),
    "os.path.realpath": lambda p: tok("abs:" + p) if "⟦" in p or not os.path.isabs(p) else os.path.normpath(p),
    "collections.defaultdict": lambda factory=None, *a, **k: _defaultdict(factory, *a, **k),
    "collections.OrderedDict": lambda *a, **k: dict(*a, **k),
    "collections.Counter": lambda *a, **k: __import__("collections").Counter(*a, **k),
    "collections.deque": lambda *a, **k: __import__("collections").deque(*a, **k),
    "sys.getrecursionlimit": lambda: 1000,
    "difflib.SequenceMatcher": lambda isjunk=None, a="", b="", autojunk=True: __import__("difflib").SequenceMatcher(None, a, b, autojunk),
    "difflib.ndiff": lambda a, b, *r, **k: list(__import__("difflib").ndiff(list(a), list(b))),
    "difflib.unified_diff": lambda a, b, *r, **k: list(__import__("difflib").unified_diff(list(a), list(b), *r, **k)),
    "difflib.get_close_matches": lambda w, poss, *a, **k: __import__("difflib").get_close_matches(str(w), [str(p_) for p_ in poss], *a, **k),
    "urllib.parse.urlparse": lambda u, *a, **k: __import__("urllib.parse").parse.urlparse(str(u), *a, **k),
    "urllib.parse.urlsplit": lambda u, *a, **k: __import__("urllib.parse").parse.urlsplit(str(u), *a, **k),
    "glob.has_magic": lambda s_: __import__("glob").has_magic(str(s_)), "glob.escape": lambda s_: __import__("glob").escape(str(s_)),
    "contextlib.closing": lambda thing: Obj("closing", thing=thing),
    "contextlib.suppress": lambda *excs: Obj("suppress", kinds=[getattr(e, "name", str(e)).rsplit(".", 1)[-1] for e in excs]),
}
def _math_fn(name):
    import math as _m

    def call(*a):
        if not all(isinstance(x, (int, float, bool)) for x in a):
            raise Raised("TypeError", f"must be real number, not {type(a[0]).__name__}" if a else "missing argument")
        try:
            return getattr(_m, name)(*a)
        except (ValueError, OverflowError) as exc:
            raise Raised(type(exc).__name__, str(exc))
    return call


for _n in ("isfinite", "isnan", "isinf", "ceil", "floor", "trunc", "sqrt", "log", "log2", "log10", "exp", "pow", "fabs", "copysign", "fmod", "gcd", "isclose", "prod", "fsum"):
    PURE_EXTERNAL["math." + _n] = _math_fn(_n)


def _accept_pathlike(fn):
    def wrapped(*a, **k):
        return fn(*[(str(x) if isinstance(x, _pathlib.PurePath) else x) for x in a], **k)
    return wrapped


for _k in list(PURE_EXTERNAL):
    if _k.startswith(("os.path.", "os.fspath", "shlex.quote")):
        PURE_EXTERNAL[_k] = _accept_pathlike(PURE_EXTERNAL[_k])


# --------------------------------------------------------------------------- the clock of the modelled machine
import datetime as _dt
import collections as _collections
CLOCK = 1_700_000_000.0      # seconds since the epoch "now" (file modification times are on this scale)
UTC_OFFSET = 3600.0          # the modelled machine's local time zone is one hour east of UTC; nothing in the program may depend on it being zero
_LOCAL_TZ = _dt.timezone(_dt.timedelta(seconds=UTC_OFFSET))


MODEL_CLOCK = [CLOCK]        # the current reading; a witness with a disk model advances it with every file operation


class ModelDateTime(_dt.datetime):
    """datetime with the stdlib's rules for naive values (a naive value is read as local wall-clock time) applied in the modelled zone, not the host's."""

    def timestamp(self):
        if self.tzinfo is None:
            return (self - _dt.datetime(1970, 1, 1)).total_seconds() - UTC_OFFSET
        return _dt.datetime.timestamp(self)

    def astimezone(self, tz=None):
        aware = self.replace(tzinfo=_LOCAL_TZ) if self.tzinfo is None else self
        return _dt.datetime.astimezone(aware, tz or _LOCAL_TZ)


def _model_now(tz=None):
    if tz is None:
        return ModelDateTime.fromtimestamp(MODEL_CLOCK[0], _LOCAL_TZ).replace(tzinfo=None)
    return ModelDateTime.fromtimestamp(MODEL_CLOCK[0], tz)


def _model_fromtimestamp(ts, tz=None):
    if tz is None:
        return ModelDateTime.fromtimestamp(float(ts), _LOCAL_TZ).replace(tzinfo=None)
    return ModelDateTime.fromtimestamp(float(ts), tz)


def _model_struct(ts, offset):
    import time as _t
    return _t.gmtime(float(ts) + offset)


PURE_EXTERNAL.update({
    "time.time": lambda: MODEL_CLOCK[0], "time.time_ns": lambda: int(MODEL_CLOCK[0] * 1e9),
    "datetime.datetime.now": _model_now, "datetime.datetime.today": lambda: _model_now(),
    "datetime.datetime.utcnow": lambda: ModelDateTime.fromtimestamp(MODEL_CLOCK[0], _dt.timezone.utc).replace(tzinfo=None),
    "datetime.datetime.fromtimestamp": _model_fromtimestamp,
    "datetime.datetime.utcfromtimestamp": lambda ts: ModelDateTime.fromtimestamp(float(ts), _dt.timezone.utc).replace(tzinfo=None),
    "datetime.timedelta": _dt.timedelta, "datetime.timezone": _dt.timezone,
    # struct_time values: gmtime() is the UTC wall clock, localtime() the local one; mktime reads a struct as local time, timegm as UTC
    "time.gmtime": lambda ts=None: _model_struct(MODEL_CLOCK[0] if ts is None else ts, 0.0),
    "time.localtime": lambda ts=None: _model_struct(MODEL_CLOCK[0] if ts is None else ts, UTC_OFFSET),
    "time.mktime": lambda st: float(__import__("calendar").timegm(st)) - UTC_OFFSET,
    "calendar.timegm": lambda st: __import__("calendar").timegm(st),
})


SAFE_METHODS = {
    str: {"format", "join", "strip", "rstrip", "lstrip", "split", "splitlines", "replace", "startswith", "endswith", "lower", "upper", "partition",
          "rpartition", "center", "ljust", "rjust", "encode", "isdigit", "count", "find", "title", "removeprefix", "removesuffix", "rsplit", "zfill", "casefold",
          "isidentifier", "isalpha", "isalnum", "isspace", "isprintable", "isascii", "isnumeric", "isdecimal", "islower", "isupper", "istitle", "format_map", "expandtabs", "capitalize", "swapcase", "rfind", "index", "rindex",
          "__contains__", "__getitem__", "__len__", "__add__", "__mod__", "__eq__", "__ne__", "__lt__", "__le__", "__gt__", "__ge__"},
    list: {"append", "extend", "copy", "index", "count", "insert", "pop", "sort", "reverse", "clear", "remove", "__contains__", "__getitem__", "__setitem__", "__delitem__",
           "__len__", "__iter__", "__add__", "__eq__"},
    dict: {"items", "keys", "values", "get", "update", "copy", "pop", "setdefault", "clear", "popitem", "__contains__", "__getitem__", "__setitem__", "__delitem__", "__len__",
           "__iter__", "__eq__", "__or__"},
    set: {"add", "union", "issuperset", "issubset", "difference", "intersection", "update", "copy", "discard", "remove", "clear", "pop", "symmetric_difference", "isdisjoint",
          "difference_update", "intersection_update", "__contains__", "__len__", "__iter__", "__or__", "__and__", "__sub__", "__eq__"},
    frozenset: {"union", "issuperset", "issubset", "difference", "intersection", "isdisjoint", "__contains__", "__len__", "__iter__"},
    tuple: {"index", "count", "__contains__", "__getitem__", "__len__", "__iter__", "__add__", "__eq__"},
    bytes: {"decode"},
    re.Pattern: {"fullmatch", "match", "search", "sub", "findall"},
    ChainMap: {"get", "items", "keys", "values", "pop", "update", "new_child"},
    _types.MappingProxyType: {"get", "items", "keys", "values"},
    ModelDateTime: {"timestamp", "replace", "astimezone", "isoformat", "strftime", "utcoffset", "date", "time", "__sub__", "__add__", "__eq__", "__lt__", "__le__", "__gt__", "__ge__"},
    _collections.deque: {"append", "appendleft", "pop", "popleft", "clear", "extend", "remove", "rotate", "count", "index", "copy", "__len__", "__iter__", "__contains__", "__getitem__",
                         "__bool__"},
    _dt.timedelta: {"total_seconds", "__add__", "__sub__", "__mul__", "__neg__", "__eq__", "__lt__", "__le__", "__gt__", "__ge__"},
}


HOST_ERRORS = (TypeError, AttributeError, KeyError, IndexError, ValueError, ZeroDivisionError, RuntimeError)


class _LazyGen:
    """A generator function of the interpreted program, run lazily: its body executes in a helper thread that is handed control only
    inside __next__ (strict hand-off, never concurrent), so effects interleave with the consumer exactly as for a real generator."""

    def __init__(self, interp, runner):
        import threading
        self.interp = interp
        self.runner = runner
        self.ready = threading.Semaphore(0)
        self.resume = threading.Semaphore(0)
        self.started = self.finished = self.done = False
        self._throw = None
        self.exc = None
        self.value = None

    def __iter__(self):
        return self

    def _body(self):
        self.interp._tls.gen = self
        try:
            self.runner()
        except _Return:
            pass
        except BaseException as exc:  # handed to the consumer
            self.exc = exc
        self.finished = True
        self.ready.release()

    def _yield(self, v):
        self.value = v
        self.ready.release()
        self.resume.acquire()
        if self._throw is not None:
            exc, self._throw = self._throw, None
            raise exc

    def throw(self, exc):
        """Resume the generator with `exc` raised at its yield; returns the next yielded value, raises StopIteration if it ends, or what it raises."""
        if not self.started or self.done:
            self.done = True
            raise exc
        self._throw = exc
        return self.__next__()

    def __next__(self):
        import threading
        if self.done:
            raise StopIteration
        if not self.started:
            self.started = True
            t = threading.Thread(target=self._body, daemon=True)
            t.start()
        else:
            self.resume.release()
        self.ready.acquire()
        if self.exc is not None:
            e, self.exc, self.done = self.exc, None, True
            raise e
        if self.finished:
            self.done = True
            raise StopIteration
        return self.value


class ModelFuture:
    """concurrent.futures.Future of the modelled executor."""

    def __init__(self, thunk, executor=None):
        self._thunk, self._done, self._value, self._exc, self._executor = thunk, False, None, None, executor

    def _run(self):
        if not self._done:
            self._done = True
            try:
                self._value = self._thunk()
            except Raised as exc:
                self._exc = exc

    def result(self, timeout=None):
        if self._executor is not None:
            self._executor.shutdown()     # while the caller blocks here the workers get through everything that was queued
        self._run()
        if self._exc is not None:
            raise self._exc
        return self._value

    def exception(self, timeout=None):
        if self._executor is not None:
            self._executor.shutdown()
        self._run()
        return self._exc

    def done(self):
        return self._done

    def cancel(self):
        if self._done:
            return False
        self._done, self._exc = True, Raised("CancelledError", "")
        return True


class ModelExecutor:
    """concurrent.futures.ThreadPoolExecutor / ProcessPoolExecutor.  A submitted call runs in another thread at some later moment; the model runs it at the latest legal
    moment - all queued calls, in order, when the first result is asked for or the executor shuts down - which is the schedule on which a closure that reads a loop
    variable late, or code that assumes the call has already happened, shows.  map() binds its arguments at once, as the library does."""

    def __init__(self, interp, max_workers=None):
        self.interp, self.max_workers, self.futures = interp, max_workers, []

    def submit(self, fn, *args, **kwargs):
        f = ModelFuture(lambda: self.interp.apply(fn, list(args), kwargs, 1), self)
        self.futures.append(f)
        return f

    def map(self, fn, *iterables, timeout=None, chunksize=1):
        futs = [self.submit(fn, *a) for a in zip(*iterables)]
        return (f.result() for f in futs)

    def shutdown(self, wait=True, cancel_futures=False):
        for f in self.futures:
            f._run()


class PureInterp:
    def __init__(self, ctx, hooks=None, max_depth=6):
        self.ctx = ctx
        self.index = ctx.index
        self.ev = ctx.ev
        self.hooks = hooks or {}  # canon name or "attr:<name>" -> callable(*args, **kwargs)
        if "gwf.backends.utils.call" in self.hooks:
            # a witness that answers for the scheduler answers whichever of the package's command runners is used (see Index.command_runners); what the
            # witness' scheduler is not told is how long the caller is prepared to wait
            h_ = self.hooks["gwf.backends.utils.call"]
            for rn in ctx.index.command_runners():
                if rn not in self.hooks:
                    self.hooks[rn] = (lambda hh: lambda *a, **k: hh(*a, **{kk: v for kk, v in k.items() if kk == "input"}))(h_)
        self.events = []
        self.max_depth = max_depth
        self.steps = 0
        import threading
        self._tls = threading.local()
        self._is_gen = {}

    # ------------------------------------------------------------------ functions
    def _repo_decorated(self, finfo, depth):
        """The value a def statement binds when (some of) its decorators are plain functions of the repository (e.g. a home-made caching
        decorator): the decorators applied, innermost first, to the raw function.  None when there is no such decorator.  Built once per
        function and interpreter, like the def statement itself runs once."""
        cache = self.__dict__.setdefault("_decorated", {})
        key = id(finfo.node)
        if key in cache:
            return cache[key]
        cache[key] = None
        val = None
        for d in reversed(getattr(finfo.node, "decorator_list", [])):
            dc = d.func if isinstance(d, ast.Call) else d
            canon = self.index.canon(dc, finfo.module) if isinstance(dc, (ast.Name, ast.Attribute)) else None
            target = self.index.lookup(canon) if canon else None
            if not isinstance(target, FuncInfo):
                continue
            deco = target
            if isinstance(d, ast.Call):   # decorator factory
                deco = self.apply(target, [self.eval(a, {}, finfo.module, depth) for a in d.args],
                                  {k.arg: self.eval(k.value, {}, finfo.module, depth) for k in d.keywords if k.arg}, depth)
            val = self.apply(deco, [val if val is not None else ("rawfunc", finfo)], {}, depth)
        cache[key] = val
        return val

    def call(self, finfo, args=(), kwargs=None, self_obj=None, depth=0, closure=None, _raw=False):
        if depth > max(self.max_depth, 40 if closure is not None else 0):
            raise Unsupported("recursion depth")
        if depth == 0:
            _ACTIVE_INTERP[0] = self
        kwargs = dict(kwargs or {})
        if not _raw and closure is None and getattr(finfo.node, "decorator_list", None) and self_obj is None:
            # a module-level function under functools.lru_cache / cache: one table per process (= per interpreter), keyed by the arguments alone
            for d in finfo.node.decorator_list:
                dc = d.func if isinstance(d, ast.Call) else d
                cn = self.index.canon(dc, finfo.module) if isinstance(dc, (ast.Name, ast.Attribute)) else None
                if cn in ("functools.lru_cache", "functools.cache"):
                    table = self.__dict__.setdefault("_lru_tables", {}).setdefault(finfo.key, {})
                    try:
                        key = (tuple(args), tuple(sorted(kwargs.items())))
                        hash(key)
                    except TypeError:
                        break
                    if key in table:
                        return table[key]
                    table[key] = self.call(finfo, args, kwargs, self_obj, depth, closure, _raw=True)
                    return table[key]
        if not _raw and closure is None and getattr(finfo.node, "decorator_list", None):
            wrapped = self._repo_decorated(finfo, depth)
            if wrapped is not None:
                is_method = finfo.cls is not None and "staticmethod" not in finfo.decorator_names()
                return self.apply(wrapped, ([self_obj] if is_method else []) + list(args), kwargs, depth)
        a = finfo.node.args
        names = [x.arg for x in a.posonlyargs + a.args]
        env = dict(closure) if closure else {}
        pos = list(args)
        if finfo.cls is not None and names and names[0] in ("self", "cls") and "staticmethod" not in finfo.decorator_names():
            if self_obj is None and "classmethod" in finfo.decorator_names():
                self_obj = finfo.cls
            env[names[0]] = self_obj
            names = names[1:]
        defaults = a.defaults
        dnames = names[len(names) - len(defaults):] if defaults else []
        for n, d in zip(dnames, defaults):
            try:
                env[n] = self.eval(d, {}, finfo.module, depth)
            except (Unsupported, CantEval):
                pass
        for n, v in zip(names, pos):
            env[n] = v
        if a.vararg:
            env[a.vararg.arg] = tuple(pos[len(names):])
        for kwa, d in zip(a.kwonlyargs, a.kw_defaults):
            if d is not None:
                env[kwa.arg] = self.eval(d, {}, finfo.module, depth)
        extra = {}
        all_names = set(names) | {x.arg for x in a.kwonlyargs}
        for k, v in kwargs.items():
            if k in all_names:
                env[k] = v
            else:
                extra[k] = v
        if a.kwarg:
            env[a.kwarg.arg] = extra
        elif extra:
            raise Raised("TypeError", f"unexpected keyword {sorted(extra)}")
        missing = [n for n in names if n not in env]
        if missing:
            raise Raised("TypeError", f"missing arguments {missing}")
        if self._is_generator(finfo):
            gen = _LazyGen(self, lambda: self.block(finfo.node.body, env, finfo.module, depth))
            if any((self.index.canon(d.func if isinstance(d, ast.Call) else d, finfo.module) or "") in ("contextlib.contextmanager", "contextlib.asynccontextmanager")
                   for d in getattr(finfo.node, "decorator_list", []) if isinstance(d.func if isinstance(d, ast.Call) else d, (ast.Name, ast.Attribute))):
                return Obj("genctx", gen=gen)      # a context manager made from a generator function
            return gen
        # the stack of interpreted function calls (for witnesses that model sys._getframe / inspect.stack)
        frames = self.__dict__.setdefault("frames", [])
        frames.append(finfo)
        try:
            self.block(finfo.node.body, env, finfo.module, depth)
        except _Return as r:
            return r.value
        except RecursionError:
            raise Unsupported("unbounded recursion")
        finally:
            frames.pop()
        return None

    def _is_generator(self, finfo):
        key = id(finfo.node)
        if key not in self._is_gen:
            found = False
            stack = list(finfo.node.body)
            while stack and not found:
                n = stack.pop()
                if isinstance(n, (ast.Yield, ast.YieldFrom)):
                    found = True
                elif not isinstance(n, (ast.FunctionDef, ast.AsyncFunctionDef, ast.Lambda, ast.ClassDef)):
                    stack.extend(ast.iter_child_nodes(n))
            self._is_gen[key] = found
        return self._is_gen[key]

    def e_Yield(self, n, env, module, depth):
        gen = getattr(self._tls, "gen", None)
        if gen is None:
            raise Unsupported("yield outside an interpreted generator")
        gen._yield(self.eval(n.value, env, module, depth) if n.value is not None else None)
        return None

    def e_YieldFrom(self, n, env, module, depth):
        gen = getattr(self._tls, "gen", None)
        if gen is None:
            raise Unsupported("yield from outside an interpreted generator")
        for v in self.eval(n.value, env, module, depth):
            gen._yield(v)
        return None

    # ------------------------------------------------------------------ statements
    def block(self, stmts, env, module, depth):
        for st in stmts:
            self.steps += 1
            if self.steps > 200000:
                raise Unsupported("step budget")
            self.stmt(st, env, module, depth)

    def stmt(self, st, env, module, depth):
        try:
            return self._stmt(st, env, module, depth)
        except HOST_ERRORS as exc:
            raise Raised(type(exc).__name__, f"{exc} at line {getattr(st, 'lineno', '?')}")

    def _stmt(self, st, env, module, depth):
        if isinstance(st, ast.Expr):
            if isinstance(st.value, ast.Constant):
                return
            self.eval(st.value, env, module, depth)
        elif isinstance(st, ast.Assign):
            v = self.eval(st.value, env, module, depth)
            for t in st.targets:
                self.assign(t, v, env, module, depth)
        elif isinstance(st, ast.AnnAssign):
            if st.value is not None:
                self.assign(st.target, self.eval(st.value, env, module, depth), env, module, depth)
        elif isinstance(st, ast.AugAssign):
            cur = self.eval(st.target, env, module, depth)
            v = self.eval(st.value, env, module, depth)
            self.assign(st.target, self.binop(st.op, cur, v), env, module, depth)
        elif isinstance(st, ast.If):
            self.block(st.body if self.truth(self.eval(st.test, env, module, depth)) else st.orelse, env, module, depth)
        elif isinstance(st, (ast.For, ast.AsyncFor)):
            it = self._iterable(self.eval(st.iter, env, module, depth))
            broke = False
            for item in it:
                self.assign(st.target, item, env, module, depth)
                try:
                    self.block(st.body, env, module, depth)
                except _Break:
                    broke = True
                    break
                except _Continue:
                    continue
            if not broke:
                self.block(st.orelse, env, module, depth)
        elif isinstance(st, ast.Return):
            raise _Return(self.eval(st.value, env, module, depth) if st.value is not None else None)
        elif isinstance(st, ast.Break):
            raise _Break()
        elif isinstance(st, ast.Continue):
            raise _Continue()
        elif isinstance(st, ast.Pass):
            return
        elif isinstance(st, ast.Delete):
            for t in st.targets:
                if isinstance(t, ast.Subscript):
                    c = self.eval(t.value, env, module, depth)
                    k = self.eval(t.slice, env, module, depth)
                    dm = self._dunder(c, "__delitem__")
                    if dm is not None:
                        self.call(dm, (k,), {}, self_obj=c, depth=depth + 1)
                        continue
                    try:
                        del c[k]
                    except KeyError:
                        raise Raised("KeyError", repr(k))
                elif isinstance(t, ast.Name):
                    env.pop(t.id, None)
        elif isinstance(st, ast.While):
            n_iter = 0
            while self.truth(self.eval(st.test, env, module, depth)):
                n_iter += 1
                if n_iter > 10000:
                    raise Unsupported("loop bound")
                try:
                    self.block(st.body, env, module, depth)
                except _Break:
                    break
                except _Continue:
                    continue
            else:
                self.block(st.orelse, env, module, depth)
        elif isinstance(st, (ast.With, ast.AsyncWith)):
            # only event-recording hooks may stand for a context manager
            opened = []

            def _kind_is(kind, name):
                import builtins as _b
                if kind == name or name in ("Exception", "BaseException") and kind not in ("KeyboardInterrupt", "SystemExit", "GeneratorExit", "CancelledError"):
                    return name != "Exception" or kind != "CancelledError"
                a_, b_ = getattr(_b, kind, None), getattr(_b, name, None)
                return isinstance(a_, type) and isinstance(b_, type) and issubclass(a_, b_)
            cur = None          # the exception travelling outwards through the exits (None: normal completion so far)
            try:
                try:
                    # `with a, b:` enters b inside a: an exception raised while entering (or evaluating) a later item is seen by the earlier ones
                    for item in st.items:
                        v = self.eval(item.context_expr, env, module, depth)
                        opened.append(v)
                        bound = v
                        enter = self._dunder(v, "__enter__")
                        if enter is not None:
                            bound = self.call(enter, (), {}, self_obj=v, depth=depth + 1)
                        elif isinstance(v, Obj) and v._name == "closing":
                            bound = v.thing
                        elif isinstance(v, Obj) and v._name == "genctx":
                            try:
                                bound = next(v.gen)          # the generator runs up to its yield
                            except StopIteration:
                                raise Raised("RuntimeError", "generator didn't yield")
                        if item.optional_vars is not None:
                            self.assign(item.optional_vars, bound, env, module, depth)
                    self.block(st.body, env, module, depth)
                except Raised as r_:
                    cur = r_
            finally:
                # every context manager's exit runs, innermost first, with the exception that is under way; an exit that returns a true value (or a matching
                # contextlib.suppress) swallows it, an exit that raises replaces it
                for v in reversed(opened):
                    try:
                        if isinstance(v, Obj) and v._name == "genctx":
                            self._exit_genctx(v, cur)
                        elif isinstance(v, Obj) and v._name == "suppress":
                            if cur is not None and any(_kind_is(cur.kind, k_) for k_ in v.kinds):
                                cur = None
                        elif self._exit_cm(v, depth, cur) and cur is not None:
                            cur = None
                    except Raised as exc_:
                        cur = exc_
                if cur is not None:
                    raise cur
        elif isinstance(st, ast.Match):
            subject = self.eval(st.subject, env, module, depth)
            for case in st.cases:
                binds = {}
                if self._match(case.pattern, subject, env, module, depth, binds):
                    env.update(binds)
                    if case.guard is None or self.truth(self.eval(case.guard, env, module, depth)):
                        self.block(case.body, env, module, depth)
                        return
            return
        elif isinstance(st, ast.Raise):
            if st.exc is None:
                cur = env.get("__current_exception__")
                if cur is not None:
                    raise cur
                raise Raised("RuntimeError", "bare raise outside a handler")
            e = st.exc.func if isinstance(st.exc, ast.Call) else st.exc
            if isinstance(e, ast.Name) and isinstance(env.get(e.id), Obj) and env[e.id]._name.startswith("exc:") and not isinstance(st.exc, ast.Call):
                o = env[e.id]
                exc = Raised(o._name[4:], getattr(o, "detail", ""))
                exc.obj = o
                raise exc
            exc = Raised((dotted(e) or "Exception").rsplit(".", 1)[-1], ast.unparse(st)[:80])
            if isinstance(st.exc, ast.Call):
                try:
                    callee = self.eval(st.exc.func, env, module, depth)
                    if isinstance(callee, ClassInfo):
                        exc.obj = self.eval(st.exc, env, module, depth)
                    elif isinstance(callee, FuncInfo) or (isinstance(callee, tuple) and callee and callee[0] in ("bound", "closure", "lambda", "partial")):
                        # `raise make_error(...)` / `raise Cls.for_path(...)`: what is raised is the object the helper returns
                        val = self.eval(st.exc, env, module, depth)
                        vcls = val.__dict__["_attrs"].get("__class__") if isinstance(val, Obj) else None
                        if isinstance(vcls, ClassInfo):
                            exc = Raised(vcls.name, str(val) if val.__dict__["_attrs"].get("__exc__") else ast.unparse(st)[:80])
                            exc.obj = val
                        elif isinstance(val, Obj) and val._name.startswith("exc:"):
                            exc = Raised(val._name[4:], str(val))
                            exc.obj = val
                    else:
                        args = [self.eval(a, env, module, depth) for a in st.exc.args if not isinstance(a, ast.Starred)]
                        exc.obj = Obj("exc:" + exc.kind, args=tuple(args))
                        exc.detail = str(args[0]) if args else exc.detail
                except (Unsupported, Raised):
                    pass
            raise exc
        elif isinstance(st, ast.Try):
            try:
                self.block(st.body, env, module, depth)
            except Raised as r:
                for h in st.handlers:
                    names = [dotted(e) for e in (h.type.elts if isinstance(h.type, ast.Tuple) else [h.type])] if h.type is not None else [None]
                    base_only = r.kind in ("CancelledError", "KeyboardInterrupt", "SystemExit", "GeneratorExit")
                    if None in names or "BaseException" in names or r.kind in [n.rsplit(".", 1)[-1] for n in names if n] or (
                            "Exception" in names and not base_only) or self._handler_matches(r, h, module):
                        if h.name:
                            env[h.name] = getattr(r, "obj", None) or self._exc_instance(r)
                        prev = env.get("__current_exception__")
                        env["__current_exception__"] = r
                        try:
                            self.block(h.body, env, module, depth)
                        finally:
                            env["__current_exception__"] = prev
                        break
                else:
                    raise
            else:
                self.block(st.orelse, env, module, depth)
            finally:
                # the finally block runs on every way out (exception, return, break); an exception raised in it replaces the pending one
                self.block(st.finalbody, env, module, depth)
        elif isinstance(st, (ast.FunctionDef, ast.AsyncFunctionDef)):
            fi = getattr(st, "_finfo", None)
            if fi is not None:
                val = ("closure", fi, env)
                for d in reversed(st.decorator_list):
                    dc = d.func if isinstance(d, ast.Call) else d
                    canon = self.index.canon(dc, module) if isinstance(dc, (ast.Name, ast.Attribute)) else None
                    if canon in ("functools.lru_cache", "functools.cache"):
                        maxsize = None if canon == "functools.cache" else 128
                        if isinstance(d, ast.Call):
                            margs = list(d.args) + [k.value for k in d.keywords if k.arg == "maxsize"]
                            if margs:
                                maxsize = self.eval(margs[0], env, module, depth)
                        val = ("memo", val, {}, maxsize)
                    elif canon in ("functools.wraps",):
                        pass
                    else:
                        raise Unsupported(f"decorator {ast.unparse(d)[:40]} on a nested function")
                env[st.name] = val
            return
        elif isinstance(st, ast.Assert):
            try:
                ok = self.truth(self.eval(st.test, env, module, depth))
            except Unsupported:
                return
            if not ok:
                raise Raised("AssertionError", ast.unparse(st.test)[:60])
        elif isinstance(st, (ast.Import, ast.ImportFrom, ast.Global, ast.Nonlocal)):
            return
        else:
            raise Unsupported(f"statement {type(st).__name__}")

    def assign(self, t, v, env, module, depth):
        if isinstance(t, ast.Name):
            env[t.id] = v
        elif isinstance(t, (ast.Tuple, ast.List)):
            vals = list(self._iterable(v))
            stars = [i for i, e in enumerate(t.elts) if isinstance(e, ast.Starred)]
            if len(stars) == 1:
                i = stars[0]
                after = len(t.elts) - i - 1
                if len(vals) < len(t.elts) - 1:
                    raise Raised("ValueError", "not enough values to unpack")
                for tt, vv in zip(t.elts[:i], vals[:i]):
                    self.assign(tt, vv, env, module, depth)
                self.assign(t.elts[i].value, list(vals[i:len(vals) - after]), env, module, depth)
                for tt, vv in zip(t.elts[i + 1:], vals[len(vals) - after:]):
                    self.assign(tt, vv, env, module, depth)
                return
            if len(vals) != len(t.elts):
                raise Raised("ValueError", "unpack")
            for tt, vv in zip(t.elts, vals):
                self.assign(tt, vv, env, module, depth)
        elif isinstance(t, ast.Subscript):
            c = self.eval(t.value, env, module, depth)
            k = self.eval(t.slice, env, module, depth)
            dm = self._dunder(c, "__setitem__")
            if dm is not None:
                self.call(dm, (k, v), {}, self_obj=c, depth=depth + 1)
                return
            c[k] = v
        elif isinstance(t, ast.Attribute):
            o = self.eval(t.value, env, module, depth)
            if isinstance(o, Obj):
                setattr(o, t.attr, v)
            elif isinstance(o, FuncRef):
                self.events.append(("setattr", o.name + "." + t.attr, v))
            elif isinstance(o, ClassInfo):
                # a class variable of the package (a creation counter, a registry): one value per analysed tree, shared by every evaluation
                self.ctx.shared.setdefault("_class_vars", {})[(f"{o.module.name}.{o.name}", t.attr)] = v
            else:
                raise Unsupported("attribute store")
        else:
            raise Unsupported("assignment target")

    def _namedtuple_type(self, cls):
        """class X(NamedTuple): a real namedtuple type with the declared fields and defaults."""
        cache = self.__dict__.setdefault("_nt_types", {})
        if id(cls) not in cache:
            typ = None
            if any((self.index.canon(b, cls.module) or "").endswith("NamedTuple") for b in getattr(cls, "base_exprs", [])) and not cls.methods:
                import collections as _c
                names = [f[0] for f in cls.fields if f[1] is not None]
                defaults = []
                for f in cls.fields:
                    if f[1] is not None and f[2] is not None:
                        defaults.append(self.eval(f[2], {}, cls.module))
                typ = _c.namedtuple(cls.name, names, defaults=defaults or None)
            cache[id(cls)] = typ
        return cache[id(cls)]

    def _class_attr(self, cls, name):
        """A plain class-level attribute (constant table, not an attrs/dataclass field declaration), looked up along repo base classes."""
        cv = self.ctx.shared.get("_class_vars", {}) if hasattr(self.ctx, "shared") else {}
        if isinstance(cls, ClassInfo) and (f"{cls.module.name}.{cls.name}", name) in cv:
            return cv[(f"{cls.module.name}.{cls.name}", name)]
        seen = set()
        stack = [cls]
        while stack:
            c = stack.pop(0)
            if id(c) in seen or not isinstance(c, ClassInfo):
                continue
            seen.add(id(c))
            for fname, _ann, value in c.fields:
                if fname == name and value is not None:
                    if isinstance(value, ast.Call) and (self.index.canon(value.func, c.module) or "").rsplit(".", 1)[-1] in ("field", "ib", "attrib", "Factory"):
                        return Ellipsis
                    return self.eval(value, {}, c.module)
            for b in getattr(c, "base_exprs", []):
                bc = self.index.lookup(self.index.canon(b, c.module) or "")
                if isinstance(bc, ClassInfo):
                    stack.append(bc)
        return Ellipsis

    def _unpacked_global(self, name, module, depth):
        """Module-level `a, b, c = <expr>`: the index records only simple names, so resolve tuple targets here."""
        for st in module.tree.body:
            if isinstance(st, ast.Assign) and len(st.targets) == 1 and isinstance(st.targets[0], (ast.Tuple, ast.List)):
                names = [e.id if isinstance(e, ast.Name) else None for e in st.targets[0].elts]
                if name in names:
                    vals = list(self._iterable(self.eval(st.value, {}, module, depth + 1)))
                    if len(vals) == len(names):
                        return vals[names.index(name)]
        return Ellipsis

    def _exitstack(self, depth):
        """contextlib.ExitStack: enter_context/callback/push register exits that run in reverse order when the stack's with-block ends."""
        stack = Obj("exitstack", _exits=[])

        def enter_context(cm):
            bound = cm
            enter = self._dunder(cm, "__enter__")
            if enter is not None:
                bound = self.call(enter, (), {}, self_obj=cm, depth=depth + 1)
            stack._exits.append(("cm", cm))
            return bound

        def callback(fn, *a, **k):
            stack._exits.append(("cb", fn, a, k))
            return fn
        stack.enter_context = enter_context
        stack.callback = callback
        stack.push = lambda cm: stack._exits.append(("cm", cm)) or cm
        stack.close = lambda: self._unwind_exitstack(stack, depth)
        stack.pop_all = lambda: stack
        return stack

    def _unwind_exitstack(self, stack, depth):
        pending = None
        while stack._exits:
            item = stack._exits.pop()
            try:
                if item[0] == "cb":
                    self.apply(item[1], list(item[2]), dict(item[3]), depth)
                else:
                    self._exit_cm(item[1], depth)
            except Raised as exc_:
                pending = exc_
        if pending is not None:
            raise pending

    def _exit_genctx(self, v, exc):
        """Leaving the with-block of a @contextmanager function: the generator is resumed after its yield - normally, or with the block's exception raised at the
        yield (so the `with` statements and try/finally blocks INSIDE the generator see it)."""
        gen = v.gen
        if exc is None:
            try:
                next(gen)
            except StopIteration:
                return
            raise Raised("RuntimeError", "generator didn't stop")
        try:
            gen.throw(exc)
        except StopIteration:
            return          # (the generator swallowed the exception; the caller re-raises the original - gwf's helpers never suppress)
        # the generator re-raised (the usual case): the exception keeps propagating from the with statement

    def _exit_cm(self, v, depth, exc=None):
        """Leave one context manager; the value tells whether it swallowed the exception under way (a true return value of a __exit__ defined in the package)."""
        if isinstance(v, ModelExecutor):
            v.shutdown()
        elif isinstance(v, Obj) and v._name == "closing":
            t = v.thing
            if isinstance(t, Obj) and t._name == "file":
                self.events.append(("close", getattr(t, "path", None)))
            elif isinstance(t, Obj) and self._dunder(t, "close") is not None:
                self.call(self._dunder(t, "close"), (), {}, self_obj=t, depth=depth + 1)
            elif isinstance(t, Obj) and "with_exit" in self.hooks:
                self.hooks["with_exit"](t)
        elif isinstance(v, Obj) and v._name == "file":
            self.events.append(("close", getattr(v, "path", None)))
        elif isinstance(v, Obj) and v._name == "exitstack":
            self._unwind_exitstack(v, depth)
        elif isinstance(v, Obj) and self._dunder(v, "__exit__") is not None:
            info = (None, None, None) if exc is None else (FuncRef("builtins." + exc.kind), getattr(exc, "obj", None) or self._exc_instance(exc), Obj("traceback"))
            return bool(self.call(self._dunder(v, "__exit__"), info, {}, self_obj=v, depth=depth + 1))
        elif isinstance(v, Obj) and "with_exit" in self.hooks:
            self.hooks["with_exit"](v)

    def _pycallable(self, v, depth):
        """Interpreter-level callables (lambdas, closures, repo functions) wrapped for host builtins such as sorted(key=...)."""
        if isinstance(v, FuncInfo) or (isinstance(v, tuple) and v and v[0] in ("lambda", "closure", "bound", "memo", "partial", "hookattr", "method", "rawfunc")):
            return lambda *a, **k: self.apply(v, list(a), k, depth)
        if isinstance(v, FuncRef):   # str, len, os.path.basename ... handed to a host builtin as key=/default=
            return lambda *a, **k: self.apply(v, list(a), k, depth)
        return v

    def _dunder(self, obj, name):
        """The repo-defined special method of a symbolic object's class, if any."""
        if isinstance(obj, Obj):
            cls = obj.__dict__["_attrs"].get("__class__")
            if isinstance(cls, ClassInfo):
                return self.index.method(cls, name)
        return None

    def _handler_matches(self, raised, handler, module):
        """Class-hierarchy match of a raised exception kind (short or canonical name) against a handler clause."""
        from .paths import Hierarchy
        hier = Hierarchy(self.index)
        kind = raised.kind
        cands = [kind] if "." in kind else [k for k in (f"builtins.{kind}", f"asyncio.{kind}", f"click.{kind}", f"click.exceptions.{kind}", f"json.{kind}",
                                                         f"json.decoder.{kind}", f"subprocess.{kind}", f"concurrent.futures.{kind}")]
        if "." not in kind:
            for ci in self.index.classes.values():
                if ci.name == kind:
                    cands.append(f"{ci.module.name}.{ci.name}")
        types = handler.type.elts if isinstance(handler.type, ast.Tuple) else [handler.type]
        for e in types:
            hc = self.index.canon(e, module) if isinstance(e, (ast.Name, ast.Attribute)) else None
            if hc is None:
                continue
            for c in cands:
                try:
                    if hier.is_sub(c, hc):
                        return True
                except Exception:
                    continue
        return False

    def _signature(self, f):
        """inspect.signature of a function / class of the package (from its definition), or of a recording hook standing for a library or plug-in callable."""
        import inspect
        P_ = inspect.Parameter
        if isinstance(f, FuncRef) and f.name in self.hooks:
            return inspect.signature(self.hooks[f.name])
        if isinstance(f, ClassInfo):
            init = self.index.method(f, "__init__")
            if init is None:
                ps = []
                for name_, _ann, value in f.fields:
                    is_init = not (isinstance(value, ast.Call) and any(k.arg == "init" and isinstance(k.value, ast.Constant) and k.value.value is False for k in value.keywords))
                    if is_init:
                        has_d = isinstance(value, ast.Call) and any(k.arg in ("default", "factory") for k in value.keywords) or (value is not None and not isinstance(value, ast.Call))
                        ps.append(P_(name_.lstrip("_"), P_.POSITIONAL_OR_KEYWORD, default=None if has_d else P_.empty))
                return inspect.Signature(ps, __validate_parameters__=False)
            f = init
            skip_self = True
        else:
            skip_self = isinstance(f, FuncInfo) and f.cls is not None and "staticmethod" not in f.decorator_names()
        if isinstance(f, tuple) and f and f[0] in ("bound",):
            f, skip_self = f[1], True
        if not isinstance(f, FuncInfo):
            if callable(f) and not isinstance(f, (Obj, FuncRef)):
                return inspect.signature(f)
            raise Unsupported("inspect.signature of this object")
        a = f.node.args
        ps = [P_(x.arg, P_.POSITIONAL_ONLY) for x in a.posonlyargs]
        nd = len(a.defaults)
        pos = a.args
        for i, x in enumerate(pos):
            ps.append(P_(x.arg, P_.POSITIONAL_OR_KEYWORD, default=None if i >= len(pos) - nd else P_.empty))
        if a.vararg:
            ps.append(P_(a.vararg.arg, P_.VAR_POSITIONAL))
        for x, d in zip(a.kwonlyargs, a.kw_defaults):
            ps.append(P_(x.arg, P_.KEYWORD_ONLY, default=P_.empty if d is None else None))
        if a.kwarg:
            ps.append(P_(a.kwarg.arg, P_.VAR_KEYWORD))
        if skip_self and ps:
            ps = ps[1:]
        return inspect.Signature(ps, __validate_parameters__=False)

    def _exc_instance(self, r):
        """The exception object for a failure injected by a hook (Raised(kind, detail)): an instance of the repository's class of that name when there is exactly one
        (so that .message, .args and the class's own methods are there), else a plain stand-in."""
        cands = [ci for ci in self.index.classes.values() if ci.name == r.kind]
        if len(cands) == 1:
            try:
                o = self.apply(cands[0], [r.detail], {}, 0)
                if isinstance(o, Obj):
                    r.obj = o
                    return o
            except (Raised, Unsupported):
                pass
        return Obj("exc:" + r.kind, args=(r.detail,), detail=r.detail, message=r.detail)

    # ------------------------------------------------------------------ expressions
    def truth(self, v):
        return bool(v)

    def binop(self, op, l, r):
        try:
            if isinstance(op, ast.Add):
                return l + r
            if isinstance(op, ast.Sub):
                return l - r
            if isinstance(op, ast.Mult):
                return l * r
            if isinstance(op, ast.FloorDiv):
                return l // r
            if isinstance(op, ast.Div):
                if isinstance(l, SymPath) or isinstance(r, SymPath):
                    return SymPath(_fspath(l), _fspath(r))
                if isinstance(l, str):
                    return _join(l, r)
                return l / r
            if isinstance(op, ast.Mod):
                return l % r
            if isinstance(op, ast.BitOr):
                return l | r
            if isinstance(op, ast.BitAnd):
                return l & r
            if isinstance(op, ast.BitXor):
                return l ^ r
            if isinstance(op, ast.Pow) and isinstance(l, (int, float)) and isinstance(r, (int, float)) and abs(r) <= 64:
                return l ** r
            if isinstance(op, ast.LShift) and isinstance(r, int) and r <= 64:
                return l << r
            if isinstance(op, ast.RShift):
                return l >> r
        except (TypeError, ValueError, ZeroDivisionError) as exc:
            raise Raised(type(exc).__name__, str(exc))
        raise Unsupported("operator")

    def eval(self, n, env, module, depth=0):
        m = getattr(self, "e_" + type(n).__name__, None)
        if m is None:
            raise Unsupported(f"expression {type(n).__name__}")
        try:
            return m(n, env, module, depth)
        except HOST_ERRORS as exc:
            # the interpreted operation fails on these operands: that is what the code would raise
            raise Raised(type(exc).__name__, f"{exc} in `{ast.unparse(n)[:60]}`")

    def _match(self, pat, subject, env, module, depth, binds):
        """Structural pattern matching for the patterns a dispatch uses: literal / dotted-name values (compared with ==), singletons (is), or-patterns,
        captures and the wildcard, sequences and mappings of those."""
        if isinstance(pat, ast.MatchValue):
            v = self.eval(pat.value, env, module, depth)
            return self._eq(subject, v)
        if isinstance(pat, ast.MatchSingleton):
            return subject is pat.value
        if isinstance(pat, ast.MatchOr):
            return any(self._match(p_, subject, env, module, depth, binds) for p_ in pat.patterns)
        if isinstance(pat, ast.MatchAs):
            if pat.pattern is not None and not self._match(pat.pattern, subject, env, module, depth, binds):
                return False
            if pat.name is not None:
                binds[pat.name] = subject
            return True
        if isinstance(pat, ast.MatchSequence):
            if not isinstance(subject, (list, tuple)) or any(isinstance(p_, ast.MatchStar) for p_ in pat.patterns) or len(subject) != len(pat.patterns):
                if any(isinstance(p_, ast.MatchStar) for p_ in pat.patterns):
                    raise Unsupported("star pattern")
                return False
            return all(self._match(p_, s_, env, module, depth, binds) for p_, s_ in zip(pat.patterns, subject))
        if isinstance(pat, ast.MatchMapping):
            if not isinstance(subject, dict) or pat.rest is not None:
                if pat.rest is not None:
                    raise Unsupported("mapping rest pattern")
                return False
            for k_, p_ in zip(pat.keys, pat.patterns):
                kv = self.eval(k_, env, module, depth)
                if kv not in subject or not self._match(p_, subject[kv], env, module, depth, binds):
                    return False
            return True
        raise Unsupported(f"pattern {type(pat).__name__}")

    @staticmethod
    def _eq(a, b):
        try:
            return bool(a == b)
        except Exception:
            return a is b

    def e_Constant(self, n, env, module, depth):
        return n.value

    def e_NamedExpr(self, n, env, module, depth):
        v = self.eval(n.value, env, module, depth)
        env[n.target.id] = v
        return v

    def _module_const(self, canon, obj, name, depth):
        cache = self.__dict__.setdefault("_const_cache", {})
        if canon in cache:
            return cache[canon]
        try:
            v = self.ev.eval(obj[2], obj[1])
            if type(v) in (list, dict, set):
                # a module-level list/dict/set is ONE object for the whole process: an alias that appends to it leaks into later calls
                import copy
                v = cache[canon] = copy.deepcopy(v)
            return v
        except CantEval:
            if canon not in cache:  # one object per module constant (sentinels are compared by identity)
                try:
                    cache[canon] = self.eval(obj[2], {}, obj[1], depth + 1)  # e.g. _PATTERN = re.compile(...)
                except (Unsupported, Raised):
                    cache[canon] = Obj("opaque:" + name)  # e.g. logger = logging.getLogger(__name__)
            return cache[canon]

    def e_Name(self, n, env, module, depth):
        if n.id in env:
            return env[n.id]
        canon = self.index.canon(n, module)
        if canon is None:
            v = self._unpacked_global(n.id, module, depth)
            if v is not Ellipsis:
                return v
            raise Raised("NameError", n.id)
        if canon.startswith("builtins."):
            return FuncRef(canon)
        obj = self.index.lookup(canon)
        if isinstance(obj, tuple) and obj[0] == "const":
            return self._module_const(canon, obj, n.id, depth)
        if isinstance(obj, (FuncInfo, ClassInfo)):
            return obj
        return FuncRef(canon)

    def e_Attribute(self, n, env, module, depth):
        base_is_local = isinstance(n.value, ast.Name) and n.value.id in env
        canon = None if base_is_local else self.index.canon(n, module)
        if canon is not None:
            obj = self.index.lookup(canon)
            if isinstance(obj, (FuncInfo, ClassInfo)):
                return obj
            if isinstance(obj, tuple) and obj[0] == "const":
                try:
                    return self._module_const(canon, obj, n.attr, depth)
                except CantEval:
                    raise
            try:
                v = self.ev.eval(n, module)
                if not isinstance(v, FuncRef):
                    return v
            except CantEval:
                pass
            # attribute of a repo constant (e.g. OPTION_STR.format) or of an external module (os.path.join)
            base_canon = self.index.canon(n.value, module) if isinstance(n.value, (ast.Name, ast.Attribute)) else None
            bobj = self.index.lookup(base_canon) if base_canon else None
            if isinstance(bobj, ClassInfo):
                cv = self._class_attr(bobj, n.attr)     # a class variable (a counter, a table) read through the class
                if cv is not Ellipsis:
                    return cv
            if not (isinstance(bobj, tuple) and bobj[0] == "const"):
                return FuncRef(canon)
        o = self.eval(n.value, env, module, depth)
        if isinstance(o, Obj):
            try:
                return getattr(o, n.attr)
            except AttributeError:
                # method of the object's class?
                cls = o.__dict__["_attrs"].get("__class__")
                if isinstance(cls, ClassInfo):
                    mth = self.index.method(cls, n.attr)
                    if mth is not None:
                        if "property" in mth.decorator_names():
                            return self.call(mth, (), {}, self_obj=o, depth=depth + 1)
                        return ("bound", mth, o)
                    cv = self._class_attr(cls, n.attr)
                    if cv is not Ellipsis:
                        return cv
                if ("attr:" + n.attr) in self.hooks:
                    return ("hookattr", n.attr, o)
                if o._name == "file":
                    # an open file (stand-in made by an `open` hook): closing it by hand is what leaving its with-block does
                    if n.attr == "close":
                        return lambda: self.events.append(("close", o.__dict__["_attrs"].get("path")))
                    if n.attr == "flush":
                        return lambda: None
                    if n.attr == "__enter__":
                        return lambda: o
                    if n.attr == "__exit__":
                        return lambda *a: self.events.append(("close", o.__dict__["_attrs"].get("path")))
                    if n.attr == "closed":
                        return False
                if n.attr in ("close", "__exit__", "__enter__") and "with_exit" in self.hooks and not isinstance(o.__dict__["_attrs"].get("__class__"), ClassInfo):
                    # a store / backend stand-in of a witness: closing it by hand (or through ExitStack.callback) is what leaving its with-block does
                    if n.attr == "__enter__":
                        return lambda: o
                    return lambda *a: self.hooks["with_exit"](o)
                if o.__dict__["_attrs"].get("__exc__") or o._name.startswith("exc:"):
                    # what BaseException / click.ClickException give every exception object
                    if n.attr == "format_message":
                        return lambda: str(o.__dict__["_attrs"].get("message", o))
                    if n.attr == "exit_code":
                        return 1
                    if n.attr == "with_traceback":
                        return lambda tb=None: o
                    if n.attr == "add_note":
                        return lambda note: None
                    if n.attr in ("__cause__", "__context__", "__traceback__", "__notes__"):
                        return None
                raise Raised("AttributeError", n.attr)
        if isinstance(o, FuncRef):
            if n.attr in ("__name__", "__qualname__"):
                return o.name.rsplit(".", 1)[-1]
            if n.attr == "__module__":
                return o.name.rsplit(".", 1)[0] if "." in o.name else "builtins"
            return FuncRef(o.name + "." + n.attr)
        if isinstance(o, ClassInfo):
            mth = self.index.method(o, n.attr)
            if mth is not None:
                decos = mth.decorator_names()
                return ("bound", mth, o) if "classmethod" in decos else mth
            cv = self._class_attr(o, n.attr)
            if cv is not Ellipsis:
                return cv
            if n.attr in ("__name__", "__qualname__"):
                return o.name
            if n.attr == "__module__":
                return o.module.name
            raise Raised("AttributeError", n.attr)
        if callable(o) and not isinstance(o, (Obj, ClassInfo, FuncInfo, FuncRef)) and n.attr in ("__name__", "__qualname__", "__doc__"):
            return getattr(o, n.attr, None)
        if isinstance(o, FuncInfo) and n.attr in ("__name__", "__qualname__"):
            return o.name
        if isinstance(o, ChainMap) and n.attr == "maps":
            return o.maps
        if ("getattr:" + n.attr) in self.hooks:
            return self.hooks["getattr:" + n.attr](o)
        if type(o).__name__ == "GraphTok":
            # a witness' graph (a list of targets whose relations the witness supplies): the helper methods of the package's Graph class (dfs, endpoints, ...) work on it
            try:
                gcls = self.index.cls("gwf.core:Graph")
                mth = self.index.method(gcls, n.attr)
            except Exception:
                mth = None
            if mth is not None:
                return ("bound", mth, o)
        if isinstance(o, EnumVal):
            if n.attr == "name":
                return o.member
            if n.attr == "value":
                cls = self.index.lookup(o.cls)
                if isinstance(cls, ClassInfo):
                    for fname, _ann, value in cls.fields:
                        if fname == o.member and value is not None:
                            try:
                                return self.ev.eval(value, cls.module)
                            except CantEval:
                                return self.eval(value, {}, cls.module)
                raise Raised("AttributeError", "value")
        if isinstance(o, SymPath) and n.attr in SYMPATH_PROPS:
            v = getattr(o, n.attr)
            return [p_ for p_ in v] if n.attr == "parents" else v
        if isinstance(o, tuple) and len(o) == 4 and o[0] == "memo" and n.attr in ("cache_info", "cache_clear", "__wrapped__", "cache_parameters"):
            if n.attr == "__wrapped__":
                return o[1]
            if n.attr == "cache_clear":
                return lambda: o[2].clear()
            if n.attr == "cache_parameters":
                return lambda: {"maxsize": o[3], "typed": False}
            import collections as _c
            CI = _c.namedtuple("CacheInfo", "hits misses maxsize currsize")
            return lambda: CI(0, len(o[2]), o[3], len(o[2]))
        if isinstance(o, tuple) and hasattr(o, "_fields") and n.attr in o._fields:
            return getattr(o, n.attr)
        if isinstance(o, tuple) and hasattr(o, "_fields") and n.attr in ("_replace", "_asdict", "_fields"):
            return getattr(o, n.attr)
        if type(o).__name__ in ("Element", "Match") and type(o).__module__ in ("xml.etree.ElementTree", "re") and not callable(getattr(o, n.attr, None)) and hasattr(o, n.attr):
            return getattr(o, n.attr)
        if type(o).__module__ == "difflib" and type(o).__name__ in ("SequenceMatcher", "Match") and hasattr(o, n.attr) and not n.attr.startswith("_"):
            return getattr(o, n.attr)
        if type(o).__module__ == "inspect" and type(o).__name__ in ("Signature", "Parameter") and n.attr in ("parameters", "name", "default", "kind", "annotation", "return_annotation", "empty", "POSITIONAL_ONLY", "POSITIONAL_OR_KEYWORD", "VAR_POSITIONAL", "KEYWORD_ONLY", "VAR_KEYWORD"):
            return dict(o.parameters) if n.attr == "parameters" else getattr(o, n.attr)
        if type(o).__module__ == "urllib.parse" and hasattr(type(o), "_fields") and n.attr in ("hostname", "port", "username", "password"):
            return getattr(o, n.attr)
        if (o is None or isinstance(o, (bool, int, float, str, bytes, list, dict, set, frozenset, tuple))) and not hasattr(o, n.attr):
            raise Raised("AttributeError", f"'{type(o).__name__}' object has no attribute '{n.attr}'")     # e.g. proc.returncode while proc is still None
        return ("method", o, n.attr)

    def e_JoinedStr(self, n, env, module, depth):
        out = []
        for v in n.values:
            if isinstance(v, ast.Constant):
                out.append(str(v.value))
            else:
                val = self.eval(v.value, env, module, depth)
                if v.format_spec is not None:
                    spec = self.eval(v.format_spec, env, module, depth)
                    out.append(format(val, spec))
                else:
                    out.append(str(val) if v.conversion != 114 else repr(val))
        return "".join(out)

    def e_List(self, n, env, module, depth):
        return [x for e in n.elts for x in self._elt(e, env, module, depth)]

    def e_Tuple(self, n, env, module, depth):
        return tuple(x for e in n.elts for x in self._elt(e, env, module, depth))

    def e_Set(self, n, env, module, depth):
        return set(x for e in n.elts for x in self._elt(e, env, module, depth))

    def _elt(self, e, env, module, depth):
        if isinstance(e, ast.Starred):
            return list(self.eval(e.value, env, module, depth))
        return [self.eval(e, env, module, depth)]

    def e_Dict(self, n, env, module, depth):
        d = {}
        for k, v in zip(n.keys, n.values):
            if k is None:
                d.update(self.eval(v, env, module, depth))
            else:
                d[self.eval(k, env, module, depth)] = self.eval(v, env, module, depth)
        return d

    def e_BinOp(self, n, env, module, depth):
        return self.binop(n.op, self.eval(n.left, env, module, depth), self.eval(n.right, env, module, depth))

    def e_UnaryOp(self, n, env, module, depth):
        v = self.eval(n.operand, env, module, depth)
        if isinstance(n.op, ast.Not):
            return not self.truth(v)
        if isinstance(n.op, ast.USub):
            return -v
        raise Unsupported("unary")

    def e_BoolOp(self, n, env, module, depth):
        v = None
        for x in n.values:
            v = self.eval(x, env, module, depth)
            if isinstance(n.op, ast.And) and not self.truth(v):
                return v
            if isinstance(n.op, ast.Or) and self.truth(v):
                return v
        return v

    def e_IfExp(self, n, env, module, depth):
        return self.eval(n.body if self.truth(self.eval(n.test, env, module, depth)) else n.orelse, env, module, depth)

    def e_Compare(self, n, env, module, depth):
        l = self.eval(n.left, env, module, depth)
        for op, c in zip(n.ops, n.comparators):
            r = self.eval(c, env, module, depth)
            if isinstance(op, (ast.In, ast.NotIn)) and (isinstance(r, Obj) or type(r).__name__ == "GraphTok"):
                # membership in an object of the package: its class's __contains__, else its __iter__ (as Python does)
                if isinstance(r, Obj):
                    dm, dit = self._dunder(r, "__contains__"), self._dunder(r, "__iter__")
                else:
                    try:
                        gcls_ = self.index.cls("gwf.core:Graph")
                        dm, dit = self.index.method(gcls_, "__contains__"), None
                    except Exception:
                        dm = dit = None
                if dm is not None:
                    found = self.truth(self.call(dm, (l,), {}, self_obj=r, depth=depth + 1))
                elif dit is not None:
                    found = any(x is l or x == l for x in self.call(dit, (), {}, self_obj=r, depth=depth + 1))
                elif isinstance(r, Obj):
                    raise Raised("TypeError", f"argument of type '{r._name}' is not iterable")
                else:
                    found = l in r
                if found != isinstance(op, ast.In):
                    return False
                l = r
                continue
            try:
                ok = {
                    ast.Eq: lambda: l == r, ast.NotEq: lambda: l != r, ast.In: lambda: l in r, ast.NotIn: lambda: l not in r,
                    ast.Is: lambda: self._same(l, r), ast.IsNot: lambda: not self._same(l, r), ast.Lt: lambda: l < r, ast.Gt: lambda: l > r,
                    ast.LtE: lambda: l <= r, ast.GtE: lambda: l >= r,
                }[type(op)]()
            except TypeError as exc:
                raise Raised("TypeError", str(exc))
            if not ok:
                return False
            l = r
        return True

    @staticmethod
    def _same(l, r):
        """`is` for the interpreter's values: enum members are singletons in the real program although EnumVal tuples are not."""
        if l is r:
            return True
        if isinstance(l, EnumVal) and isinstance(r, EnumVal):
            return l == r
        if isinstance(l, FuncRef) and isinstance(r, FuncRef):
            return l == r       # a function or class of a library is one object however often it is named
        if isinstance(l, (bool, type(None))) or isinstance(r, (bool, type(None))):
            return l is r
        return False

    def e_Subscript(self, n, env, module, depth):
        v = self.eval(n.value, env, module, depth)
        if isinstance(n.slice, ast.Slice):
            lo = self.eval(n.slice.lower, env, module, depth) if n.slice.lower else None
            hi = self.eval(n.slice.upper, env, module, depth) if n.slice.upper else None
            st = self.eval(n.slice.step, env, module, depth) if n.slice.step else None
            return v[lo:hi:st]
        k = self.eval(n.slice, env, module, depth)
        if isinstance(v, ClassInfo):
            from .consteval import enum_members
            if k in enum_members(self.index, v):
                return EnumVal(f"{v.module.name}.{v.qual}", k)
            raise Raised("KeyError", repr(k))
        dm = self._dunder(v, "__getitem__")
        if dm is not None:
            return self.call(dm, (k,), {}, self_obj=v, depth=depth + 1)
        try:
            if isinstance(v, DefaultDict):
                return v.lookup(k)
            return v[k]
        except KeyError:
            raise Raised("KeyError", repr(k))
        except (IndexError, TypeError) as exc:
            raise Raised(type(exc).__name__, str(exc))

    def _comp(self, gens, env, module, depth):
        if not gens:
            yield env
            return
        g = gens[0]
        for item in self._iterable(self.eval(g.iter, env, module, depth)):
            e = dict(env)
            self.assign(g.target, item, e, module, depth)
            if all(self.truth(self.eval(c, e, module, depth)) for c in g.ifs):
                yield from self._comp(gens[1:], e, module, depth)

    def e_ListComp(self, n, env, module, depth):
        return [self.eval(n.elt, e, module, depth) for e in self._comp(n.generators, env, module, depth)]

    def e_GeneratorExp(self, n, env, module, depth):
        # lazy and one-shot like the real thing; the outermost iterable is evaluated now (as Python does)
        first = n.generators[0]
        outer = self._iterable(self.eval(first.iter, env, module, depth))

        def run():
            for item in outer:
                e = dict(env)
                self.assign(first.target, item, e, module, depth)
                if all(self.truth(self.eval(c, e, module, depth)) for c in first.ifs):
                    for e2 in self._comp(n.generators[1:], e, module, depth):
                        yield self.eval(n.elt, e2, module, depth)
        return run()

    def _iterable(self, v):
        """Iteration protocol for symbolic objects: NamedTuple-like objects iterate their fields, objects of repo classes use __iter__."""
        if isinstance(v, ClassInfo):
            from .consteval import enum_members
            if any((self.index.canon(b, v.module) or "").rsplit(".", 1)[-1] in ("Enum", "IntEnum", "Flag", "StrEnum") for b in getattr(v, "base_exprs", [])):
                return iter([EnumVal(f"{v.module.name}.{v.qual}", m) for m in enum_members(self.index, v)])
            raise Raised("TypeError", f"class {v.name} is not iterable")
        if isinstance(v, Obj):
            seq = self._as_sequence(v)
            if seq is not None:
                return iter(seq)
            dm = self._dunder(v, "__iter__")
            if dm is not None:
                return iter(self.call(dm, (), {}, self_obj=v))
            raise Raised("TypeError", f"'{v._name}' object is not iterable")
        return v

    def _as_sequence(self, o):
        attrs = o.__dict__["_attrs"]
        if "_nt_fields" in attrs:
            return [attrs[f] for f in attrs["_nt_fields"]]
        cls = attrs.get("__class__")
        if isinstance(cls, ClassInfo) and any((self.index.canon(b, cls.module) or "").endswith("NamedTuple") for b in getattr(cls, "base_exprs", [])):
            return [attrs[f[0]] for f in cls.fields if f[0] in attrs]
        return None

    def e_SetComp(self, n, env, module, depth):
        return {self.eval(n.elt, e, module, depth) for e in self._comp(n.generators, env, module, depth)}

    def e_DictComp(self, n, env, module, depth):
        return {self.eval(n.key, e, module, depth): self.eval(n.value, e, module, depth) for e in self._comp(n.generators, env, module, depth)}

    def e_Call(self, n, env, module, depth):
        args = [x for a in n.args for x in self._elt(a, env, module, depth)]
        kwargs = {}
        for kw in n.keywords:
            if kw.arg is None:
                kwargs.update(self.eval(kw.value, env, module, depth))
            else:
                kwargs[kw.arg] = self.eval(kw.value, env, module, depth)
        # hooks by canonical name
        canon = self.index.canon(n.func, module) if isinstance(n.func, (ast.Name, ast.Attribute)) and not (
            isinstance(n.func, ast.Attribute) and isinstance(n.func.value, ast.Name) and n.func.value.id in env) and not (
            isinstance(n.func, ast.Name) and n.func.id in env) else None
        if canon in self.hooks:
            return self._hook(self.hooks[canon], args, kwargs)
        if isinstance(n.func, ast.Attribute) and ("attr:" + n.func.attr) in self.hooks:
            recv = None
            try:
                recv = self.eval(n.func.value, env, module, depth)
            except (Unsupported, Raised):
                pass
            try:
                return self._hook(self.hooks["attr:" + n.func.attr], [recv] + list(args), kwargs)
            except HookDecline:
                cls_ = recv.__dict__["_attrs"].get("__class__") if isinstance(recv, Obj) else None
                mth_ = self.index.method(cls_, n.func.attr) if isinstance(cls_, ClassInfo) else None
                if mth_ is None:
                    raise Unsupported(f"hook for .{n.func.attr}() declined a receiver without such a method")
                return self.call(mth_, args, kwargs, self_obj=recv, depth=depth + 1)
        if isinstance(n.func, ast.Attribute) and dotted(n.func.value) in ("logger", "logging", "log") and dotted(n.func.value) not in env \
                and n.func.attr in ("debug", "info", "warning", "warn", "error", "exception", "critical", "log"):
            self.events.append(("log", n.func.attr, tuple(args)))
            return None
        f = self.eval(n.func, env, module, depth)
        return self.apply(f, args, kwargs, depth, n)

    @staticmethod
    def _hook(h, args, kwargs):
        """Call a recording hook that stands for a function with the signature it has on the analysed tree's ancestor: arguments the hook does not know
        (a parameter added later, with a default) are dropped instead of failing the evaluation with a TypeError that the program would not raise."""
        import inspect
        try:
            sig = inspect.signature(h)
        except (TypeError, ValueError):
            return h(*args, **kwargs)
        params = list(sig.parameters.values())
        if not any(p_.kind == p_.VAR_KEYWORD for p_ in params):
            names = {p_.name for p_ in params if p_.kind in (p_.POSITIONAL_OR_KEYWORD, p_.KEYWORD_ONLY)}
            kwargs = {k: v for k, v in kwargs.items() if k in names}
        if not any(p_.kind == p_.VAR_POSITIONAL for p_ in params):
            n_pos = sum(1 for p_ in params if p_.kind in (p_.POSITIONAL_ONLY, p_.POSITIONAL_OR_KEYWORD))
            args = list(args)[:n_pos]
        return h(*args, **kwargs)

    def apply(self, f, args, kwargs, depth, node=None):
        if isinstance(f, FuncInfo):
            hk = f"{f.module.name}.{f.qual}"
            if hk in self.hooks and f.cls is None:      # a hooked function handed around as a value (executor.submit(call, ...), map(call, ...))
                return self._hook(self.hooks[hk], args, kwargs)
            return self.call(f, args, kwargs, depth=depth + 1)
        if isinstance(f, tuple) and f and f[0] == "bound":
            return self.call(f[1], args, kwargs, self_obj=f[2], depth=depth + 1)
        if isinstance(f, tuple) and f and f[0] == "rawfunc":   # the undecorated function, as handed to its decorator
            fi = f[1]
            if fi.cls is not None and "staticmethod" not in fi.decorator_names() and args:
                return self.call(fi, args[1:], kwargs, self_obj=args[0], depth=depth + 1, _raw=True)
            return self.call(fi, args, kwargs, depth=depth + 1, _raw=True)
        if isinstance(f, tuple) and f and f[0] == "hookattr":
            return self._hook(self.hooks["attr:" + f[1]], [f[2]] + list(args), kwargs)
        if isinstance(f, tuple) and f and f[0] == "closure":
            return self.call(f[1], args, kwargs, depth=depth + 1, closure=f[2])
        if isinstance(f, tuple) and f and f[0] == "ntclass":
            vals = dict(zip(f[2], args))
            vals.update(kwargs)
            missing = [x for x in f[2] if x not in vals]
            if missing:
                raise Raised("TypeError", f"{f[1]}() missing {missing}")
            return Obj(f[1], _nt_fields=f[2], **vals)
        if isinstance(f, tuple) and f and f[0] == "partial":
            return self.apply(f[1], list(f[2]) + list(args), dict(f[3], **kwargs), depth, node)
        if isinstance(f, tuple) and f and f[0] == "memodeco":
            return ("memo", args[0], {}, f[1])
        if isinstance(f, tuple) and f and f[0] == "memo":
            _tag, inner, cache, maxsize = f
            key = (tuple(args), tuple(sorted(kwargs.items())))
            if key in cache:
                v = cache.pop(key)
                cache[key] = v  # most recently used
                return v
            v = self.apply(inner, args, kwargs, depth, node)
            cache[key] = v
            if maxsize is not None and len(cache) > maxsize:
                cache.pop(next(iter(cache)))
            return v
        if isinstance(f, tuple) and f and f[0] == "method":
            recv, name = f[1], f[2]
            for typ, names in SAFE_METHODS.items():
                if isinstance(recv, typ) and name in names:
                    try:
                        res = getattr(recv, name)(*args, **kwargs)
                    except KeyError as exc:
                        raise Raised("KeyError", str(exc))
                    except (IndexError, ValueError, TypeError) as exc:
                        raise Raised(type(exc).__name__, str(exc))
                    return res      # dict views stay views: they compare like sets and follow later changes of the dictionary
            if isinstance(recv, (ModelExecutor, ModelFuture)) and not name.startswith("_"):
                return getattr(recv, name)(*args, **kwargs)
            if isinstance(recv, SymPath):
                if name in SYMPATH_PURE:
                    try:
                        return getattr(recv, name)(*[(_fspath(a) if isinstance(a, (Obj,)) else a) for a in args], **kwargs)
                    except (TypeError, ValueError) as exc:
                        raise Raised(type(exc).__name__, str(exc))
                return _sympath_method(recv, name, args, kwargs)
            if hasattr(recv, "group") and name in ("group", "groups", "start", "end", "span", "groupdict"):
                return getattr(recv, name)(*args)
            if type(recv).__name__ == "Element" and type(recv).__module__ == "xml.etree.ElementTree" and name in ("iter", "find", "findall", "findtext", "get", "itertext", "getchildren"):
                return getattr(recv, name)(*args, **kwargs)
            raise Unsupported(f"method {name} on {type(recv).__name__}")
        if isinstance(f, FuncRef):
            name = f.name
            if name in self.hooks:
                return self._hook(self.hooks[name], args, kwargs)
            if name == "inspect.signature" and args:
                return self._signature(args[0])
            if name in ("concurrent.futures.ThreadPoolExecutor", "concurrent.futures.ProcessPoolExecutor", "concurrent.futures.thread.ThreadPoolExecutor",
                        "concurrent.futures.process.ProcessPoolExecutor"):
                return ModelExecutor(self, kwargs.get("max_workers", args[0] if args else None))
            if name == "concurrent.futures.as_completed" and args:
                return iter(list(args[0]))
            if name == "concurrent.futures.wait" and args:
                fs_ = list(args[0])
                for f_ in fs_:
                    f_._run()
                return (set(fs_), set())
            obj = self.index.lookup(name)
            if isinstance(obj, FuncInfo):
                return self.call(obj, args, kwargs, depth=depth + 1)
            if name.startswith("builtins."):
                b = name.split(".", 1)[1]
                if b == "isinstance":
                    return self._isinstance(args[0], args[1])
                if b == "filter":
                    return (x for x in self._iterable(args[1]) if (self.truth(x) if args[0] is None else self.truth(self.apply(args[0], [x], {}, depth))))
                if b == "map":
                    return (self.apply(args[0], list(xs), {}, depth) for xs in zip(*[self._iterable(a_) for a_ in args[1:]]))
                if b == "next":
                    it = args[0]
                    if not hasattr(it, "__next__"):
                        raise Raised("TypeError", f"'{type(it).__name__}' object is not an iterator")
                    try:
                        return next(it)
                    except StopIteration:
                        if len(args) > 1:
                            return args[1]
                        raise Raised("StopIteration", "")
                if b == "iter":
                    return iter(self._iterable(args[0]))
                if b in ("list", "tuple", "set", "frozenset", "sorted", "sum", "any", "all", "max", "min", "enumerate", "dict", "len", "reversed") and args and isinstance(args[0], Obj):
                    args = [self._iterable(args[0]) if b != "len" else (self._as_sequence(args[0]) or args[0])] + list(args[1:])
                if b == "callable":
                    a0 = args[0]
                    return isinstance(a0, (FuncInfo, FuncRef, ClassInfo)) or (isinstance(a0, tuple) and bool(a0) and a0[0] in ("lambda", "bound", "closure", "partial", "memo", "hookattr")) \
                        or (callable(a0) and not isinstance(a0, Obj)) or (isinstance(a0, Obj) and self._dunder(a0, "__call__") is not None)
                if b == "getattr":
                    o, nm = args[0], args[1]
                    try:
                        if isinstance(o, Obj):
                            node_ = ast.Attribute(value=ast.Name(id="__o__", ctx=ast.Load()), attr=nm, ctx=ast.Load())
                            return self.e_Attribute(node_, {"__o__": o}, self.index.repo.module("gwf.core"), depth)
                        return getattr(o, nm)
                    except (Raised, AttributeError):
                        if len(args) > 2:
                            return args[2]
                        raise Raised("AttributeError", nm)
                if b == "setattr":
                    setattr(args[0], args[1], args[2])
                    return None
                if b == "type" and len(args) == 1:
                    v0 = args[0]
                    if isinstance(v0, Obj):
                        cls0 = v0.__dict__["_attrs"].get("__class__")
                        if isinstance(cls0, ClassInfo):
                            return cls0
                        nm0 = v0._name[4:] if v0._name.startswith("exc:") else v0._name
                        return Obj("type", __name__=nm0, __qualname__=nm0, __module__="builtins")
                    if isinstance(v0, EnumVal):
                        cls0 = self.index.lookup(v0.cls)
                        return cls0 if isinstance(cls0, ClassInfo) else Obj("type", __name__=v0.cls.rsplit(".", 1)[-1])
                    if type(v0) in (int, float, str, bytes, bool, list, dict, tuple, set, frozenset, complex, bytearray):
                        return FuncRef("builtins." + type(v0).__name__)      # the value the names `int`, `dict`, ... evaluate to: `type(x) is int` compares like in Python
                    return type(v0)
                if b == "hasattr":
                    o = args[0]
                    return (args[1] in o.__dict__["_attrs"]) if isinstance(o, Obj) else hasattr(o, args[1])
                fn = PURE_BUILTINS.get(b)
                if fn is not None:
                    try:
                        kwargs = {k: self._pycallable(v, depth) for k, v in kwargs.items()}
                        if b in ("map", "filter", "sorted", "max", "min", "sum", "any", "all", "next", "iter"):
                            args = [self._pycallable(v, depth) for v in args]
                        return fn(*args, **kwargs)
                    except (ValueError, TypeError) as exc:
                        raise Raised(type(exc).__name__, str(exc))
            if name in ("logging.getLogger", "logging.getLoggerClass"):
                ev_ = self.events
                mk = lambda lvl: (lambda *a, **k: ev_.append(("log", lvl, a)))
                # every level counts as enabled: what a command does must not depend on the verbosity, so code guarded by isEnabledFor(DEBUG) is evaluated too
                return Obj("opaque:logger", isEnabledFor=lambda *a: True, getEffectiveLevel=lambda: 10, level=10, setLevel=lambda *a: None, disabled=False, propagate=True,
                           handlers=[], addHandler=lambda *a: None, removeHandler=lambda *a: None, getChild=lambda *a: Obj("opaque:logger"), name="gwf",
                           **{lvl: mk(lvl) for lvl in ("debug", "info", "warning", "error", "exception", "critical", "log", "warn", "fatal")})
            if name in ("operator.attrgetter", "operator.itemgetter", "operator.methodcaller"):
                kind = name.rsplit(".", 1)[1]
                if kind == "attrgetter":
                    def _get(o, names=tuple(args)):
                        vals = []
                        for nm in names:
                            cur = o
                            for part in nm.split("."):
                                cur = getattr(cur, part)
                            vals.append(cur)
                        return vals[0] if len(vals) == 1 else tuple(vals)
                    return _get
                if kind == "itemgetter":
                    return (lambda o, keys=tuple(args): o[keys[0]] if len(keys) == 1 else tuple(o[k] for k in keys))
                raise Unsupported("operator.methodcaller")
            if name in ("attrs.evolve", "attr.evolve", "dataclasses.replace") and args and isinstance(args[0], Obj) and isinstance(args[0].__dict__["_attrs"].get("__class__"), ClassInfo):
                # a new instance through the constructor: the init-fields keep their current values unless changed; fields with init=False are computed afresh
                src, cls_ = args[0], args[0].__dict__["_attrs"]["__class__"]
                kw_ = {}
                for fname, _ann, value in cls_.fields:
                    is_init = not (isinstance(value, ast.Call) and any(k.arg == "init" and isinstance(k.value, ast.Constant) and k.value.value is False for k in value.keywords))
                    if is_init and fname in src.__dict__["_attrs"]:
                        kw_[fname.lstrip("_")] = src.__dict__["_attrs"][fname]
                kw_.update(kwargs)
                return self.apply(cls_, [], kw_, depth)
            if name in ("attrs.asdict", "attr.asdict", "dataclasses.asdict", "attrs.astuple", "attr.astuple", "dataclasses.astuple") and args and isinstance(args[0], Obj):
                o0 = args[0]
                cls0 = o0.__dict__["_attrs"].get("__class__")
                if isinstance(cls0, ClassInfo) and cls0.fields:
                    names0 = [f_[0] for f_ in cls0.fields if f_[1] is not None or isinstance(f_[2], ast.Call)]
                else:
                    names0 = [k for k in o0.__dict__["_attrs"] if not k.startswith("_") and k != "__class__"]
                d0 = {}
                for k in names0:
                    try:
                        d0[k.lstrip("_")] = getattr(o0, k)
                    except AttributeError:
                        pass
                return tuple(d0.values()) if name.endswith("astuple") else d0
            if name == "collections.namedtuple":
                import collections as _c
                return _c.namedtuple(*args, **kwargs)   # a real tuple type: comparison, unpacking and field access behave as in the program
            if name == "contextlib.ExitStack":
                return self._exitstack(depth)
            if name == "functools.partial":
                return ("partial", args[0], tuple(args[1:]), dict(kwargs))
            if name in ("functools.lru_cache", "functools.cache"):
                is_fn = lambda v: isinstance(v, FuncInfo) or (isinstance(v, tuple) and v and v[0] in ("closure", "lambda", "bound"))
                if args and is_fn(args[0]):
                    return ("memo", args[0], {}, None if name.endswith(".cache") else 128)
                ms = kwargs.get("maxsize", args[0] if args else 128)
                return ("memodeco", ms)
            if name in PURE_EXTERNAL:
                try:
                    if name.startswith(("itertools.", "functools.reduce")):
                        args = [self._pycallable(a_, depth) for a_ in args]
                        kwargs = {k_: self._pycallable(v_, depth) for k_, v_ in kwargs.items()}
                    return PURE_EXTERNAL[name](*args, **kwargs)
                except (Raised, Unsupported):
                    raise
                except Exception as exc:     # what the library function raises for these arguments is what the program gets (ParseError, re.error, JSONDecodeError ...)
                    raise Raised(type(exc).__name__, str(exc))
            if name.startswith("logging.") or ".logger." in name or name.startswith("click.echo") or name.startswith("click.secho"):
                self.events.append(("log", name, args))
                return None
            raise Unsupported(f"call to {name}")
        if isinstance(f, ClassInfo):
            if "construct" in self.hooks:
                res = self.hooks["construct"](f, args, kwargs)
                if res is not NotImplemented:
                    return res
            nt = self._namedtuple_type(f)
            if nt is not None:
                try:
                    return nt(*args, **kwargs)
                except TypeError as exc:
                    raise Raised("TypeError", str(exc))
            o = Obj(f.name, _args=tuple(args), _kwargs=dict(kwargs), **{"__class__": f})
            ext_ = [b_ for b_ in self.index.mro_names(f)[1:] if not isinstance(self.index.lookup(b_), ClassInfo)]
            if any(b_.rsplit(".", 1)[-1].endswith(("Exception", "Error", "Exit", "Interrupt", "Abort", "Warning")) for b_ in ext_):
                o.args = tuple(args)          # BaseException.__new__ keeps the constructor arguments, whatever __init__ does
                o.__dict__["_attrs"]["__exc__"] = True
                if any(b_.startswith("click.") for b_ in ext_) and args:
                    o.message = args[0]       # click.ClickException(message)
            init = self.index.method(f, "__init__")
            if init is not None:
                self.call(init, args, kwargs, self_obj=o, depth=depth + 1)
            else:
                self._bind_fields(o, f, args, kwargs)
            return o
        if callable(f) and not isinstance(f, (FuncInfo, ClassInfo, FuncRef, Obj)):
            return f(*args, **kwargs)  # a recording hook handed in as a value (status_func, submit_func, ...)
        if isinstance(f, tuple) and f and f[0] == "lambda":
            lam = f[1]
            e = dict(f[3]) if len(f) > 3 and f[3] else {}
            e.update(zip([a.arg for a in lam.args.args], args))
            e.update({k: v for k, v in kwargs.items() if k in [a.arg for a in lam.args.args]})
            return self.eval(lam.body, e, f[2], depth)
        raise Unsupported(f"call of {type(f).__name__}")

    def _bind_fields(self, o, cls, args, kwargs):
        """attrs/dataclass-style construction: positional and keyword arguments bind the declared fields in order; defaults/factories fill the rest."""
        pos = list(args)
        for name, _ann, value in cls.fields:
            init = True
            default = Ellipsis
            if isinstance(value, ast.Call):
                for k in value.keywords:
                    if k.arg == "init" and isinstance(k.value, ast.Constant) and k.value.value is False:
                        init = False
                    if k.arg == "default":
                        # evaluated once, when the class is created: a mutable default is one object shared by all instances
                        dc = self.__dict__.setdefault("_field_defaults", {})
                        if (id(cls), name) not in dc:
                            try:
                                dc[(id(cls), name)] = self.eval(k.value, {}, cls.module)
                            except (Unsupported, Raised, CantEval):
                                dc[(id(cls), name)] = Ellipsis
                        default = dc[(id(cls), name)]
                    if k.arg in ("factory", "default_factory"):
                        fn = dotted(k.value)
                        if fn in ("dict", "list", "set"):
                            default = {"dict": dict, "list": list, "set": set}[fn]()
                        else:
                            try:
                                default = self.apply(self.eval(k.value, {}, cls.module), [], {}, 0)
                            except (Unsupported, Raised, CantEval):
                                default = None
            elif value is not None:
                try:
                    default = self.eval(value, {}, cls.module)
                except (Unsupported, Raised, CantEval):
                    default = Ellipsis
            arg = name.lstrip("_")
            if init and pos:
                setattr(o, name, pos.pop(0))
            elif init and arg in kwargs:
                setattr(o, name, kwargs[arg])
            elif default is not Ellipsis:
                setattr(o, name, default)
            else:
                continue
            # attrs runs a field's converter on whatever value the field gets - the given one or the default
            conv = next((k.value for k in value.keywords if k.arg == "converter"), None) if isinstance(value, ast.Call) else None
            if conv is not None:
                try:
                    f_ = self.eval(conv, {}, cls.module)
                    setattr(o, name, self.apply(f_, [getattr(o, name)], {}, 0))
                except (Unsupported, CantEval):
                    pass

    def e_Await(self, n, env, module, depth):
        # sequential model: awaiting a coroutine runs it to completion here (scheduling points are the path explorer's business)
        return self.eval(n.value, env, module, depth)

    def e_Lambda(self, n, env, module, depth):
        return ("lambda", n, module, env)

    def _isinstance(self, v, t):
        names = [t] if not isinstance(t, (tuple, list)) else list(t)
        if isinstance(v, EnumVal):
            # a member of an Enum class of the package is an instance of that class (and of enum.Enum)
            for x in names:
                want = f"{x.module.name}.{x.name}" if isinstance(x, ClassInfo) else x.name if isinstance(x, FuncRef) else str(x)
                if want == v.cls or want in ("enum.Enum", "builtins.object"):
                    return True
            return False
        if isinstance(v, Obj):
            from .paths import Hierarchy
            hier = Hierarchy(self.index)
            cls = v.__dict__["_attrs"].get("__class__")
            kind = v._name[4:] if v._name.startswith("exc:") else None
            cands = []
            if isinstance(cls, ClassInfo):
                cands.append(f"{cls.module.name}.{cls.name}")
            if kind:
                cands += [f"builtins.{kind}", f"asyncio.{kind}", f"click.{kind}", f"click.exceptions.{kind}"] + [f"{ci.module.name}.{ci.name}" for ci in self.index.classes.values() if ci.name == kind]
            for x in names:
                want = f"{x.module.name}.{x.name}" if isinstance(x, ClassInfo) else x.name if isinstance(x, FuncRef) else str(x)
                for c in cands:
                    try:
                        if hier.is_sub(c, want) or c == want:
                            return True
                    except Exception:
                        continue
            return False
        import builtins as _b, collections.abc as _abc, os as _os
        for x in names:
            nm = x.name if isinstance(x, FuncRef) else getattr(x, "name", str(x))
            real = None
            if nm.startswith("builtins."):
                real = getattr(_b, nm.split(".", 1)[1], None)
            elif nm.startswith("collections.abc.") or nm.startswith("typing."):
                real = getattr(_abc, nm.rsplit(".", 1)[1], None)
            elif nm in ("os.PathLike",):
                real = _os.PathLike
            elif nm in ("pathlib.Path", "pathlib.PurePath", "pathlib.PosixPath", "pathlib.PurePosixPath"):
                real = _pathlib.PurePath
            if isinstance(real, type) and not isinstance(v, (Obj, EnumVal)):
                if isinstance(v, real):
                    return True
                continue
            if nm.endswith("str") and isinstance(v, str):
                return True
            if nm.endswith("Mapping") and isinstance(v, _abc_Mapping):
                return True
            if nm.endswith("dict") and isinstance(v, dict):
                return True
            if nm.endswith("list") and isinstance(v, list):
                return True
        return False

"""Evaluation of module-level tables from the syntax tree (enum members stay symbolic, nothing is imported)."""
import ast
from collections import namedtuple

from .index import ClassInfo, FuncInfo

EnumVal = namedtuple("EnumVal", "cls member")
FuncRef = namedtuple("FuncRef", "name")


# platform constants of the standard library (POSIX values; gwf drives POSIX schedulers)
EXTERNAL_CONSTANTS = {"os.curdir": ".", "os.pardir": "..", "os.sep": "/", "os.path.sep": "/", "os.linesep": "\n", "os.devnull": "/dev/null", "os.extsep": ".", "os.pathsep": ":",
                      "os.path.curdir": ".", "os.path.pardir": "..", "math.inf": float("inf"), "math.nan": float("nan"), "math.pi": 3.141592653589793, "math.e": 2.718281828459045,
                      "datetime.timezone.utc": __import__("datetime").timezone.utc, "datetime.UTC": __import__("datetime").timezone.utc,
                      **{f"os.{n_}": getattr(__import__("os"), n_) for n_ in ("O_RDONLY", "O_WRONLY", "O_RDWR", "O_CREAT", "O_EXCL", "O_TRUNC", "O_APPEND", "O_CLOEXEC", "O_NOFOLLOW")},
                      **{f"stat.{n_}": getattr(__import__("stat"), n_) for n_ in ("S_IRUSR", "S_IWUSR", "S_IRGRP", "S_IROTH", "S_IRWXU")}}


class DefaultDict(dict):
    def __init__(self, default, data):
        super().__init__(data)
        self.default = default

    def lookup(self, key):
        return self[key] if key in self else self.default


class CantEval(Exception):
    def __init__(self, node, why=""):
        super().__init__(f"cannot evaluate {ast.unparse(node)[:80]!r} {why}")
        self.node = node


def is_enum_class(index, cinfo):
    return any(n in ("enum.Enum", "enum.IntEnum", "enum.Flag") for n in index.mro_names(cinfo))


def enum_members(index, cinfo):
    """Ordered member names of an Enum class defined in the repo."""
    out = []
    for name, _ann, value in cinfo.fields:
        if name.startswith("_") or value is None:
            continue
        out.append(name)
    return out


def enum_name(ev):
    return f"{ev.cls.rsplit('.', 1)[-1]}.{ev.member}"


class Evaluator:
    def __init__(self, index):
        self.index = index
        self._stack = []

    def eval_global(self, modname, name):
        return self.eval(self.index.module_const(modname, name), self.index.repo.module(modname))

    def eval(self, node, module=None, env=None):
        module = module or node._module
        env = env or {}
        m = getattr(self, "_e_" + type(node).__name__, None)
        if m is None:
            raise CantEval(node, "(unsupported node)")
        return m(node, module, env)

    # --- leaves
    def _e_Constant(self, n, module, env):
        return n.value

    def _e_Tuple(self, n, module, env):
        return tuple(self._elts(n.elts, module, env))

    def _e_List(self, n, module, env):
        return list(self._elts(n.elts, module, env))

    def _e_Set(self, n, module, env):
        return set(self._elts(n.elts, module, env))

    def _elts(self, elts, module, env):
        out = []
        for e in elts:
            if isinstance(e, ast.Starred):
                out.extend(self.eval(e.value, module, env))
            else:
                out.append(self.eval(e, module, env))
        return out

    def _e_Dict(self, n, module, env):
        d = {}
        for k, v in zip(n.keys, n.values):
            if k is None:
                d.update(self.eval(v, module, env))
            else:
                d[self.eval(k, module, env)] = self.eval(v, module, env)
        return d

    def _e_Name(self, n, module, env):
        if n.id in env:
            return env[n.id]
        canon = self.index.canon(n, module)
        return self._resolve_canon(canon, n)

    def _resolve_canon(self, canon, n):
        if canon is None:
            raise CantEval(n, "(unresolved name)")
        if canon.startswith("builtins."):
            return FuncRef(canon)
        if canon in EXTERNAL_CONSTANTS:
            return EXTERNAL_CONSTANTS[canon]
        obj = self.index.lookup(canon)
        if isinstance(obj, tuple) and obj[0] == "const":
            key = (obj[1].name, id(obj[2]))
            if key in self._stack:
                raise CantEval(n, "(cyclic)")
            self._stack.append(key)
            try:
                return self.eval(obj[2], obj[1])
            finally:
                self._stack.pop()
        if isinstance(obj, FuncInfo):
            return FuncRef(f"{obj.module.name}.{obj.qual}")
        if isinstance(obj, ClassInfo):
            return FuncRef(f"{obj.module.name}.{obj.qual}")
        if obj is None:
            return FuncRef(canon)
        raise CantEval(n, "(not a value)")

    def _e_Attribute(self, n, module, env):
        # Enum member?
        base_canon = self.index.canon(n.value, module) if isinstance(n.value, (ast.Name, ast.Attribute)) else None
        if base_canon:
            obj = self.index.lookup(base_canon)
            if isinstance(obj, ClassInfo) and is_enum_class(self.index, obj):
                if n.attr in enum_members(self.index, obj):
                    return EnumVal(f"{obj.module.name}.{obj.qual}", n.attr)
                raise CantEval(n, "(no such enum member)")
        canon = self.index.canon(n, module)
        if canon:
            return self._resolve_canon(canon, n)
        raise CantEval(n, "(attribute)")

    def _e_JoinedStr(self, n, module, env):
        out = []
        for v in n.values:
            if isinstance(v, ast.Constant):
                out.append(str(v.value))
            elif isinstance(v, ast.FormattedValue) and v.format_spec is None and v.conversion == -1:
                out.append(str(self.eval(v.value, module, env)))
            else:
                raise CantEval(n)
        return "".join(out)

    def _e_BinOp(self, n, module, env):
        l, r = self.eval(n.left, module, env), self.eval(n.right, module, env)
        try:
            if isinstance(n.op, ast.Add):
                return l + r
            if isinstance(n.op, ast.BitOr):
                return l | r
            if isinstance(n.op, ast.Sub):
                return l - r
            if isinstance(n.op, ast.Mod):
                return l % r
            if isinstance(n.op, ast.Mult):
                return l * r
        except Exception as exc:
            raise CantEval(n, str(exc))
        raise CantEval(n)

    def _e_UnaryOp(self, n, module, env):
        v = self.eval(n.operand, module, env)
        if isinstance(n.op, ast.USub):
            return -v
        if isinstance(n.op, ast.Not):
            return not v
        raise CantEval(n)

    def _e_Lambda(self, n, module, env):
        return ("lambda", n, module)

    def _e_Call(self, n, module, env):
        fn = self.index.canon(n.func, module) if isinstance(n.func, (ast.Name, ast.Attribute)) else None
        args = [self.eval(a, module, env) for a in n.args]
        kwargs = {k.arg: self.eval(k.value, module, env) for k in n.keywords if k.arg}
        if fn in ("collections.defaultdict",):
            default = None
            if args:
                f = args[0]
                if isinstance(f, tuple) and f[0] == "lambda" and not f[1].args.args:
                    default = self.eval(f[1].body, f[2])
                elif isinstance(f, FuncRef):
                    default = {"builtins.list": [], "builtins.dict": {}, "builtins.set": set(), "builtins.int": 0}.get(f.name)
            data = dict(args[1]) if len(args) > 1 else {}
            data.update(kwargs)
            return DefaultDict(default, data)
        simple = {
            "builtins.dict": dict, "builtins.set": set, "builtins.frozenset": frozenset,
            "builtins.tuple": tuple, "builtins.list": list, "builtins.sorted": sorted,
            "builtins.str": str, "builtins.int": int, "builtins.len": len,
        }
        if fn in simple:
            try:
                return simple[fn](*args, **kwargs)
            except Exception as exc:
                raise CantEval(n, str(exc))
        if fn == "os.path.join":
            return "/".join(str(a) for a in args)
        if isinstance(n.func, ast.Attribute):
            recv = None
            try:
                recv = self.eval(n.func.value, module, env)
            except CantEval:
                pass
            if isinstance(recv, DefaultDict) and n.func.attr == "get" and args:
                return recv[args[0]] if args[0] in recv else (args[1] if len(args) > 1 else None)
            if isinstance(recv, (str, dict, tuple, list, set, frozenset)) and n.func.attr in (
                "format", "join", "keys", "values", "items", "lower", "upper", "strip", "split", "union", "copy",
                "get", "splitlines", "rstrip", "lstrip", "startswith", "endswith", "replace", "partition", "rpartition",
            ):
                try:
                    res = getattr(recv, n.func.attr)(*args, **kwargs)
                    return list(res) if n.func.attr in ("keys", "values", "items") else res
                except Exception as exc:
                    raise CantEval(n, str(exc))
        raise CantEval(n, "(call)")

    def _e_ListComp(self, n, module, env):
        return list(self._comp(n, module, env))

    def _e_SetComp(self, n, module, env):
        return set(self._comp(n, module, env))

    def _e_GeneratorExp(self, n, module, env):
        return list(self._comp(n, module, env))

    def _e_DictComp(self, n, module, env):
        out = {}
        for e in self._comp_envs(n.generators, module, env):
            out[self.eval(n.key, module, e)] = self.eval(n.value, module, e)
        return out

    def _comp(self, n, module, env):
        for e in self._comp_envs(n.generators, module, env):
            yield self.eval(n.elt, module, e)

    def _comp_envs(self, gens, module, env):
        if not gens:
            yield env
            return
        g = gens[0]
        it = self.eval(g.iter, module, env)
        if isinstance(it, FuncRef):
            # iterating an Enum class
            obj = self.index.lookup(it.name)
            if isinstance(obj, ClassInfo) and is_enum_class(self.index, obj):
                it = [EnumVal(it.name, m) for m in enum_members(self.index, obj)]
            else:
                raise CantEval(g.iter)
        if isinstance(it, dict):
            it = list(it)
        for item in it:
            e = dict(env)
            self._bind(g.target, item, e)
            if all(self.eval(c, module, e) for c in g.ifs):
                yield from self._comp_envs(gens[1:], module, e)

    def _bind(self, target, value, env):
        if isinstance(target, ast.Name):
            env[target.id] = value
        elif isinstance(target, (ast.Tuple, ast.List)):
            for t, v in zip(target.elts, value):
                self._bind(t, v, env)
        else:
            raise CantEval(target)

    def _e_Compare(self, n, module, env):
        left = self.eval(n.left, module, env)
        for op, c in zip(n.ops, n.comparators):
            right = self.eval(c, module, env)
            ok = {
                ast.Eq: lambda a, b: a == b, ast.NotEq: lambda a, b: a != b,
                ast.In: lambda a, b: a in b, ast.NotIn: lambda a, b: a not in b,
                ast.Is: lambda a, b: a is b or a == b, ast.IsNot: lambda a, b: not (a is b or a == b),
            }.get(type(op))
            if ok is None:
                raise CantEval(n)
            if not ok(left, right):
                return False
            left = right
        return True

    def _e_Subscript(self, n, module, env):
        v = self.eval(n.value, module, env)
        if isinstance(n.slice, ast.Slice):
            raise CantEval(n)
        k = self.eval(n.slice, module, env)
        try:
            if isinstance(v, DefaultDict):
                return v.lookup(k)
            return v[k]
        except Exception as exc:
            raise CantEval(n, str(exc))

    def _e_IfExp(self, n, module, env):
        return self.eval(n.body if self.eval(n.test, module, env) else n.orelse, module, env)

    def _e_BoolOp(self, n, module, env):
        val = None
        for v in n.values:
            val = self.eval(v, module, env)
            if isinstance(n.op, ast.And) and not val:
                return val
            if isinstance(n.op, ast.Or) and val:
                return val
        return val

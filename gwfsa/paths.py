"""Structured path exploration of one function with finite-domain abstract values and exception edges.

This is the engine's CFG + abstract exploration (DESIGN 2.3/2.4) realised as a syntax-directed walk:
every statement yields a set of outcomes (next / return / raise / break / continue) with the abstract
state reached, `try/except/else/finally` and `with` dispatch them exactly as Python does, states with
the same abstract content are merged (the first trace is kept as the witness).  No code is executed.
"""
import ast
import asyncio
import builtins

from .index import FUNC_TYPES, dotted

NEXT, RETURN, RAISE, BREAK, CONTINUE = "next", "return", "raise", "break", "continue"


class State:
    __slots__ = ("vars", "facts", "trace")

    def __init__(self, vars=None, facts=None, trace=()):
        self.vars = dict(vars or {})
        self.facts = dict(facts or {})
        self.trace = trace

    def copy(self):
        return State(self.vars, self.facts, self.trace)

    def key(self):
        return (frozenset(self.vars.items()), frozenset(self.facts.items()))

    def alias_src(self, name):
        return self.facts.get("alias:" + name)

    def with_var(self, name, values):
        s = self.copy()
        vals = frozenset(values)
        s.vars[name] = vals
        # mirror the refinement to the expression this name aliases and to its other aliases (aliases are per path)
        src = self.facts.get("alias:" + name, name)
        for k, v in self.facts.items():
            if k.startswith("alias:") and v == src and k[6:] != name:
                s.vars[k[6:]] = vals
        if src != name:
            s.vars[src] = vals
        return s

    def with_fact(self, name, value):
        s = self.copy()
        s.facts[name] = value
        return s

    def note(self, node, label):
        s = self.copy()
        s.trace = self.trace + ((getattr(node, "lineno", 0), label),)
        return s


class Outcome:
    __slots__ = ("kind", "state", "payload", "node")

    def __init__(self, kind, state, payload=None, node=None):
        self.kind = kind
        self.state = state
        self.payload = payload
        self.node = node

    def key(self):
        p = self.payload
        if isinstance(p, ast.AST):
            p = ast.dump(p)
        return (self.kind, p, self.state.key())


EXTERNAL_BASES = {
    "click.ClickException": "builtins.Exception",
    "click.exceptions.ClickException": "builtins.Exception",
    "click.Abort": "builtins.RuntimeError",
    "click.exceptions.Abort": "builtins.RuntimeError",
    "click.UsageError": "builtins.Exception",
    "json.JSONDecodeError": "builtins.ValueError",
    "json.decoder.JSONDecodeError": "builtins.ValueError",
    "subprocess.CalledProcessError": "builtins.Exception",
    "xml.etree.ElementTree.ParseError": "builtins.SyntaxError",
}


def _real_class(name):
    if name is None:
        return None
    if name.startswith("builtins."):
        return getattr(builtins, name.split(".", 1)[1], None)
    if name.startswith("asyncio."):
        obj = asyncio
        for part in name.split(".")[1:]:
            obj = getattr(obj, part, None)
            if obj is None:
                return None
        return obj
    if name.startswith("concurrent.futures."):
        import concurrent.futures as cf
        return getattr(cf, name.rsplit(".", 1)[1], None)
    return None


class Hierarchy:
    """Exception class hierarchy: builtins/asyncio by the real classes (names only), repo classes by ClassDef bases."""

    def __init__(self, index):
        self.index = index

    def ancestors(self, name):
        out = [name]
        cls = _real_class(name)
        if cls is not None:
            for c in cls.__mro__[1:]:
                if c is object:
                    continue
                out.append(f"{c.__module__}.{c.__qualname__}")
            return out
        if name in EXTERNAL_BASES:
            return out + self.ancestors(EXTERNAL_BASES[name])
        obj = self.index.lookup(name)
        if obj is not None and hasattr(obj, "base_exprs"):
            for b in self.index.bases(obj):
                out.extend(self.ancestors(b))
        return out

    def norm(self, name):
        cls = _real_class(name)
        if cls is not None:
            return f"{cls.__module__}.{cls.__qualname__}"
        return name

    def is_sub(self, exc, handler):
        h = self.norm(handler)
        return h in [self.norm(a) for a in self.ancestors(exc)]


class Semantics:
    """Rule-specific hooks.  Subclass and override."""

    loop_bound = 1
    max_outcomes = 4000

    def __init__(self, index, finfo):
        self.index = index
        self.finfo = finfo
        self.module = finfo.module
        self.h = Hierarchy(index)
        self.alias_of = {}  # last alias seen per name (informational; the per-path table lives in the state facts)

    def dom(self, text, state=None):
        """Domain of a tracked expression or of a local alias of one."""
        d = self.domain(text)
        if d is None and state is not None:
            src = state.alias_src(text)
            if src is not None:
                d = self.domain(src)
        return d

    # --- domains
    def domain(self, text):
        """Finite domain (iterable) of a tracked expression, or None if not tracked."""
        return None

    def truthy(self, value):
        return bool(value)

    def const(self, expr, state):
        """Abstract value set of an expression, or None if unknown."""
        t = ast.unparse(expr)
        if t in state.vars:
            return state.vars[t]
        if isinstance(expr, ast.Constant):
            return frozenset([expr.value])
        return None

    # --- effects
    def may_raise(self, stmt, state):
        """Exception class names a simple statement (or expression evaluation) may raise instead of completing."""
        out = []
        for n in ast.walk(stmt) if not isinstance(stmt, FUNC_TYPES) else []:
            if isinstance(n, ast.Await):
                out.append("asyncio.CancelledError")
                break
        return out

    def effect(self, node, state):
        """Apply the effects of a simple statement / evaluated expression; return the new state."""
        return state

    def assign(self, target_text, value_expr, state):
        """Abstract value set assigned to a tracked target (None = havoc to full domain)."""
        return self.const(value_expr, state) if value_expr is not None else None

    def test_hook(self, expr, state):
        """[(bool, state)] for an opaque test, or None for 'both'."""
        return None

    def enter_loop(self, node, state):
        """(may_skip, may_iterate) for a loop whose iterable/test is opaque."""
        return True, True

    def on_return(self, node, state):
        return state

    def handler_names(self, type_expr):
        if type_expr is None:
            return [None]
        if isinstance(type_expr, ast.Tuple):
            out = []
            for e in type_expr.elts:
                out.extend(self.handler_names(e))
            return out
        c = self.index.canon(type_expr, self.module)
        return [c or dotted(type_expr) or ast.unparse(type_expr)]

    def with_exit_swallows(self, item, exc):
        """True if the context manager's __exit__ suppresses exc (contextlib.suppress)."""
        call = item.context_expr
        if isinstance(call, ast.Call):
            c = self.index.canon(call.func, self.module)
            if c == "contextlib.suppress":
                for a in call.args:
                    for hn in self.handler_names(a):
                        if hn and self.h.is_sub(exc, hn):
                            return True
        return False


class Explorer:
    def __init__(self, sem):
        self.sem = sem
        self.steps = 0

    # ------------------------------------------------------------------ entry
    def run(self, state=None):
        node = self.sem.finfo.node
        outs = self.block(node.body, state or State())
        final = []
        for o in outs:
            if o.kind == NEXT:
                final.append(Outcome(RETURN, self.sem.on_return(None, o.state), None, None))
            else:
                final.append(o)
        return self.dedupe(final)

    def dedupe(self, outs):
        seen = {}
        for o in outs:
            k = o.key()
            if k not in seen:
                seen[k] = o
        if len(seen) > self.sem.max_outcomes:
            raise RuntimeError("path explosion")
        return list(seen.values())

    # ------------------------------------------------------------------ blocks
    def block(self, stmts, state):
        cur = [Outcome(NEXT, state)]
        done = []
        for st in stmts:
            nxt = []
            for o in cur:
                for r in self.stmt(st, o.state):
                    (nxt if r.kind == NEXT else done).append(r)
            cur = self.dedupe(nxt)
            if not cur:
                break
        return self.dedupe(done + cur)

    # ------------------------------------------------------------------ tests
    def test(self, expr, state):
        """[(truth, state)] : evaluate a condition over the finite domains."""
        sem = self.sem
        if isinstance(expr, ast.UnaryOp) and isinstance(expr.op, ast.Not):
            return [(not t, s) for t, s in self.test(expr.operand, state)]
        if isinstance(expr, ast.BoolOp):
            results = []
            pending = [(None, state)]
            for i, v in enumerate(expr.values):
                nxt = []
                for _, s in pending:
                    for t, s2 in self.test(v, s):
                        if isinstance(expr.op, ast.And):
                            if not t:
                                results.append((False, s2))
                            elif i == len(expr.values) - 1:
                                results.append((True, s2))
                            else:
                                nxt.append((None, s2))
                        else:
                            if t:
                                results.append((True, s2))
                            elif i == len(expr.values) - 1:
                                results.append((False, s2))
                            else:
                                nxt.append((None, s2))
                pending = nxt
            return results
        if isinstance(expr, ast.Constant):
            return [(bool(expr.value), state)]
        text = ast.unparse(expr)
        if text in state.vars or sem.dom(text, state) is not None:
            dom = state.vars.get(text)
            if dom is None:
                dom = frozenset(sem.dom(text, state))
            t = frozenset(v for v in dom if sem.truthy(v))
            f = dom - t
            out = []
            if t:
                out.append((True, state.with_var(text, t)))
            if f:
                out.append((False, state.with_var(text, f)))
            return out
        if isinstance(expr, ast.Compare) and len(expr.ops) == 1:
            res = self._compare(expr, state)
            if res is not None:
                return res
        hook = sem.test_hook(expr, state)
        if hook is not None:
            return hook
        return [(True, state), (False, state)]

    def _compare(self, expr, state):
        sem = self.sem
        op = expr.ops[0]
        left, right = expr.left, expr.comparators[0]
        lt, rt = ast.unparse(left), ast.unparse(right)

        def dom_of(text):
            if text in state.vars:
                return state.vars[text]
            d = sem.dom(text, state)
            return frozenset(d) if d is not None else None

        ld, rd = dom_of(lt), dom_of(rt)
        lc = sem.const(left, state) if ld is None else None
        rc = sem.const(right, state) if rd is None else None
        if isinstance(op, (ast.Eq, ast.NotEq, ast.Is, ast.IsNot)):
            neg = isinstance(op, (ast.NotEq, ast.IsNot))
            if ld is not None and rc is not None and len(rc) == 1:
                var, dom, val = lt, ld, next(iter(rc))
            elif rd is not None and lc is not None and len(lc) == 1:
                var, dom, val = rt, rd, next(iter(lc))
            else:
                return None
            eq = frozenset(v for v in dom if v == val)
            ne = dom - eq
            out = []
            if eq:
                out.append((not neg, state.with_var(var, eq)))
            if ne:
                out.append((neg, state.with_var(var, ne)))
            return out
        if isinstance(op, (ast.In, ast.NotIn)) and ld is not None:
            coll = sem.const(right, state)
            if coll is None:
                coll = self._collection(right, state)
            if coll is None:
                return None
            neg = isinstance(op, ast.NotIn)
            inn = frozenset(v for v in ld if v in coll)
            out_ = ld - inn
            res = []
            if inn:
                res.append((not neg, state.with_var(lt, inn)))
            if out_:
                res.append((neg, state.with_var(lt, out_)))
            return res
        return None

    def _collection(self, expr, state):
        if isinstance(expr, (ast.Tuple, ast.List, ast.Set)):
            vals = set()
            for e in expr.elts:
                c = self.sem.const(e, state)
                if c is None or len(c) != 1:
                    return None
                vals |= c
            return frozenset(vals)
        return None

    # ------------------------------------------------------------------ statements
    def simple(self, node, state, label=None):
        """A simple statement or an evaluated expression: may raise instead of completing, else its effect applies."""
        outs = []
        for exc in self.sem.may_raise(node, state):
            outs.append(Outcome(RAISE, state.note(node, f"raises {exc}"), exc, node))
        s2 = self.sem.effect(node, state)
        if s2 is not None:
            outs.append(Outcome(NEXT, s2, None, node))
        return outs

    def stmt(self, st, state):
        self.steps += 1
        m = getattr(self, "s_" + type(st).__name__, None)
        if m is None:
            return self.simple(st, state)
        return m(st, state)

    def s_FunctionDef(self, st, state):
        return [Outcome(NEXT, state)]

    s_AsyncFunctionDef = s_FunctionDef
    s_ClassDef = s_FunctionDef

    def s_Pass(self, st, state):
        return [Outcome(NEXT, state)]

    def _assign_targets(self, targets, value, state):
        sem = self.sem
        for t in targets:
            if isinstance(t, (ast.Tuple, ast.List)):
                elts_v = value.elts if isinstance(value, (ast.Tuple, ast.List)) and len(value.elts) == len(t.elts) else None
                for i, tt in enumerate(t.elts):
                    state = self._assign_targets([tt], elts_v[i] if elts_v else None, state)
                continue
            text = ast.unparse(t)
            if isinstance(t, ast.Name) and (t.id.startswith("__ret") or t.id.startswith("__done")) and isinstance(value, ast.Constant):
                state = state.copy()
                state.vars[text] = frozenset([value.value])
                state.facts.pop("alias:" + text, None)
                continue
            if isinstance(t, ast.Name) and value is not None:
                vt = ast.unparse(value)
                if (sem.dom(vt, state) is not None or vt in state.vars) and vt != text:
                    src = state.alias_src(vt) or vt
                    sem.alias_of[text] = src
                    cur = state.vars.get(vt)
                    state = state.with_fact("alias:" + text, src)
                    d0 = sem.dom(vt, state)
                    state.vars[text] = cur if cur is not None else (frozenset(d0) if d0 is not None else frozenset())
                    continue
                elif state.alias_src(text) is not None:
                    state = state.copy()
                    state.facts.pop("alias:" + text, None)
            dom = sem.domain(text)
            if dom is not None or text in state.vars:
                vals = sem.assign(text, value, state)
                if vals is None:
                    vals = frozenset(dom) if dom is not None else None
                if vals is None:
                    state = state.copy()
                    state.vars.pop(text, None)
                else:
                    state = state.with_var(text, vals)
            # a store to x invalidates tracked expressions that mention x as a component
            if isinstance(t, ast.Name):
                stale = [k for k in state.vars if k != text and _mentions(k, t.id)]
                if stale:
                    state = state.copy()
                    for k in stale:
                        d = sem.domain(k)
                        if d is not None:
                            state.vars[k] = frozenset(d)
                        else:
                            state.vars.pop(k, None)
        return state

    def _mentions_tracked(self, expr, state):
        for n in ast.walk(expr):
            if isinstance(n, (ast.Name, ast.Attribute, ast.Subscript, ast.Call)):
                t = ast.unparse(n)
                if t in state.vars or self.sem.dom(t, state) is not None:
                    return True
        return False

    def s_Assign(self, st, state):
        outs = []
        for o in self.simple(st, state):
            if o.kind == NEXT:
                for val, s2 in self._split_ifexp(st.value, o.state):
                    # flag = <boolean expression over tracked values>: fork on its truth and remember it
                    if len(st.targets) == 1 and isinstance(st.targets[0], ast.Name) and isinstance(val, (ast.BoolOp, ast.Compare)) or (
                            len(st.targets) == 1 and isinstance(st.targets[0], ast.Name) and isinstance(val, ast.UnaryOp) and isinstance(val.op, ast.Not)):
                        if self._mentions_tracked(val, s2) and self.sem.domain(st.targets[0].id) is None:
                            branches = self.test(val, s2)
                            if all(isinstance(t, bool) for t, _ in branches):
                                for truth, s3 in branches:
                                    s4 = s3.copy()
                                    s4.vars[st.targets[0].id] = frozenset([truth])
                                    s4.facts.pop("alias:" + st.targets[0].id, None)
                                    outs.append(Outcome(NEXT, s4, None, st))
                                continue
                    outs.append(Outcome(NEXT, self._assign_targets(st.targets, val, s2), None, st))
            else:
                outs.append(o)
        return outs

    def s_AnnAssign(self, st, state):
        if st.value is None:
            return [Outcome(NEXT, state)]
        outs = []
        for o in self.simple(st, state):
            if o.kind == NEXT:
                o = Outcome(NEXT, self._assign_targets([st.target], st.value, o.state), None, st)
            outs.append(o)
        return outs

    def s_AugAssign(self, st, state):
        outs = []
        for o in self.simple(st, state):
            if o.kind == NEXT:
                o = Outcome(NEXT, self._assign_targets([st.target], None, o.state), None, st)
            outs.append(o)
        return outs

    def s_Return(self, st, state):
        outs = []
        if st.value is not None:
            for o in self.simple(st, state):
                if o.kind == NEXT:
                    for val, s2 in self._split_ifexp(st.value, o.state):
                        outs.append(Outcome(RETURN, self.sem.on_return(st, s2.note(st, "return")), val, st))
                else:
                    outs.append(o)
        else:
            outs.append(Outcome(RETURN, self.sem.on_return(st, state.note(st, "return")), None, st))
        return outs

    def _split_ifexp(self, value, state):
        """`return a if test else b` forks on the test."""
        if isinstance(value, ast.IfExp):
            out = []
            for truth, s in self.test(value.test, state):
                out.extend(self._split_ifexp(value.body if truth else value.orelse, s))
            return out
        return [(value, state)]

    def s_Raise(self, st, state):
        sem = self.sem
        name = None
        if st.exc is None:
            name = state.facts.get("__handling__")
        else:
            e = st.exc.func if isinstance(st.exc, ast.Call) else st.exc
            name = sem.index.canon(e, sem.module) or dotted(e)
        s2 = sem.effect(st, state)
        return [Outcome(RAISE, (s2 or state).note(st, f"raise {name}"), name or "builtins.Exception", st)]

    def s_Break(self, st, state):
        return [Outcome(BREAK, state)]

    def s_Continue(self, st, state):
        return [Outcome(CONTINUE, state)]

    def s_If(self, st, state):
        outs = []
        for o in self.simple(st.test, state):
            if o.kind != NEXT:
                outs.append(o)
                continue
            for truth, s in self.test(st.test, o.state):
                outs.extend(self.block(st.body if truth else st.orelse, s))
        return outs

    def s_Assert(self, st, state):
        outs = []
        for truth, s in self.test(st.test, state):
            if truth:
                outs.append(Outcome(NEXT, s))
            else:
                outs.append(Outcome(RAISE, s.note(st, "assert fails"), "builtins.AssertionError", st))
        return outs

    def _loop(self, st, state, header_outs, test_expr=None):
        """Common loop driver. header_outs: outcomes of evaluating the iterable / first test."""
        sem = self.sem
        result = []
        for ho in header_outs:
            if ho.kind != NEXT:
                result.append(ho)
                continue
            frontier = [ho.state]
            for it in range(sem.loop_bound + 1):
                nxt = []
                for s in frontier:
                    if test_expr is not None:
                        branches = self.test(test_expr, s)
                    elif isinstance(st, ast.For) and isinstance(st.target, ast.Name) and st.target.id.startswith("__once"):
                        branches = [(True, s)] if it == 0 else [(False, s)]
                    else:
                        skip, iterate = sem.enter_loop(st, s) if it == 0 else (True, True)
                        branches = ([(False, s)] if skip else []) + ([(True, s)] if iterate else [])
                    for truth, s2 in branches:
                        if not truth:
                            result.extend(self.block(st.orelse, s2))
                            continue
                        if it == sem.loop_bound:
                            continue  # bound reached: longer iterations are not explored
                        s3 = s2
                        if isinstance(st, (ast.For, ast.AsyncFor)):
                            s3 = self._assign_targets([st.target], None, s2)
                        for bo in self.block(st.body, s3):
                            if bo.kind == BREAK:
                                result.append(Outcome(NEXT, bo.state))
                            elif bo.kind in (NEXT, CONTINUE):
                                nxt.append(bo.state)
                            else:
                                result.append(bo)
                seen = {}
                for s in nxt:
                    seen.setdefault(s.key(), s)
                frontier = list(seen.values())
                if not frontier:
                    break
        return self.dedupe(result)

    def s_For(self, st, state):
        return self._loop(st, state, self.simple(st.iter, state))

    s_AsyncFor = s_For

    def s_While(self, st, state):
        return self._loop(st, state, self.simple(st.test, state), test_expr=st.test)

    def s_With(self, st, state):
        sem = self.sem
        cur = [Outcome(NEXT, state)]
        done = []
        for item in st.items:
            nxt = []
            for o in cur:
                for r in self.simple(item, o.state):
                    if r.kind == NEXT:
                        s = r.state
                        if item.optional_vars is not None:
                            s = self._assign_targets([item.optional_vars], item.context_expr, s)
                        nxt.append(Outcome(NEXT, s))
                    else:
                        done.append(r)
            cur = nxt
        outs = []
        for o in cur:
            for bo in self.block(st.body, o.state):
                if bo.kind == RAISE and any(sem.with_exit_swallows(it, bo.payload) for it in st.items):
                    outs.append(Outcome(NEXT, bo.state.note(st, f"{bo.payload} suppressed")))
                else:
                    s = sem.effect(("with_exit", st, bo.kind), bo.state) or bo.state
                    outs.append(Outcome(bo.kind, s, bo.payload, bo.node))
        return self.dedupe(done + outs)

    s_AsyncWith = s_With

    def s_Try(self, st, state):
        sem = self.sem
        after_handlers = []
        for bo in self.block(st.body, state):
            if bo.kind == NEXT:
                after_handlers.extend(self.block(st.orelse, bo.state))
            elif bo.kind == RAISE:
                handled = False
                for h in st.handlers:
                    names = sem.handler_names(h.type)
                    if any(n is None or sem.h.is_sub(bo.payload, n) for n in names):
                        hs = bo.state.with_fact("__handling__", bo.payload).note(h, f"except {ast.unparse(h.type) if h.type else ''} catches {bo.payload}")
                        hs = sem.effect(("handler", h, bo.payload), hs) or hs
                        for ho in self.block(h.body, hs):
                            s = ho.state.copy()
                            s.facts.pop("__handling__", None)
                            if state.facts.get("__handling__") is not None:
                                s.facts["__handling__"] = state.facts["__handling__"]
                            after_handlers.append(Outcome(ho.kind, s, ho.payload, ho.node))
                        handled = True
                        break
                if not handled:
                    after_handlers.append(bo)
            else:
                after_handlers.append(bo)
        after_handlers = self.dedupe(after_handlers)
        if not st.finalbody:
            return after_handlers
        outs = []
        for o in after_handlers:
            fs = o.state.with_fact("__pending__", (o.kind, o.payload if not isinstance(o.payload, ast.AST) else "value"))
            for fo in self.block(st.finalbody, fs):
                s = fo.state.copy()
                s.facts.pop("__pending__", None)
                if fo.kind == NEXT:
                    outs.append(Outcome(o.kind, s, o.payload, o.node))
                else:
                    outs.append(Outcome(fo.kind, s, fo.payload, fo.node))
        return self.dedupe(outs)

    s_TryStar = s_Try

    def s_Expr(self, st, state):
        return self.simple(st, state)

    def s_Match(self, st, state):
        outs = []
        for case in st.cases:
            outs.extend(self.block(case.body, state))
        outs.append(Outcome(NEXT, state))
        return outs


def _mentions(text, name):
    try:
        tree = ast.parse(text, mode="eval")
    except SyntaxError:
        return False
    return any(isinstance(n, ast.Name) and n.id == name for n in ast.walk(tree))


def fmt_trace(state, module):
    return [f"{module.relpath}:{ln} {label}" for ln, label in state.trace]

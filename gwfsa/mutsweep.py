"""Thorough tier: systematic first-order edits of the anchored code, applied in memory, to measure how sensitive the rules are.

Operators: comparison flips, condition negation, and<->or, True<->False, dropping `not`, dropping a keyword argument,
deletion of a simple statement (-> pass), swap of two adjacent simple statements.
A generated edit is NOT known to break the property (some are equivalent, some break another property, some would be
caught by the test suite); the sweep is evidence about rule sensitivity and a source of candidates for triage, never a verdict.
"""
import ast
import json
import os
import re

from .loader import Repo
from .report import VERIF, load_known

FLIP = {ast.Eq: "!=", ast.NotEq: "==", ast.Lt: "<=", ast.LtE: "<", ast.Gt: ">=", ast.GtE: ">", ast.In: "not in", ast.NotIn: "in", ast.Is: "is not", ast.IsNot: "is"}


def _ranges(prop):
    """{relpath: [(lo, hi)]} from the property's anchors (mechanism.where)."""
    out = {}
    with open(os.path.join(VERIF, "properties.jsonl")) as fh:
        for line in fh:
            p = json.loads(line)
            if p["id"] != prop:
                continue
            for m in p["anchors"].get("mechanism", []):
                for part in m.get("where", "").split(";"):
                    part = part.strip()
                    mm = re.match(r"(\S+?):([\d,\-\s]+)$", part)
                    if not mm:
                        continue
                    rel = mm.group(1)
                    for rng in mm.group(2).split(","):
                        rng = rng.strip()
                        if "-" in rng:
                            lo, hi = rng.split("-")
                        else:
                            lo = hi = rng
                        out.setdefault(rel, []).append((int(lo), int(hi)))
    return out


def _seg(lines, node):
    if node.lineno == node.end_lineno:
        return lines[node.lineno - 1][node.col_offset:node.end_col_offset]
    parts = [lines[node.lineno - 1][node.col_offset:]] + lines[node.lineno:node.end_lineno - 1] + [lines[node.end_lineno - 1][:node.end_col_offset]]
    return "\n".join(parts)


def _replace(lines, l1, c1, l2, c2, text):
    """Replace the region (1-based lines, 0-based cols) by text; returns new source."""
    new = list(lines)
    head = new[l1 - 1][:c1]
    tail = new[l2 - 1][c2:]
    new[l1 - 1:l2] = (head + text + tail).split("\n")
    return "\n".join(new)


def generate(prop, root):
    """Yield (name, relpath, new_source)."""
    repo = Repo(root)
    ranges = _ranges(prop)
    for rel, rngs in sorted(ranges.items()):
        if rel not in repo.by_relpath:
            continue
        # the pinned line numbers of the anchors drift with every commit: widen to the enclosing functions
        mod = repo.by_relpath[rel]
        lines = mod.source.split("\n")
        funcs = [n for n in ast.walk(mod.tree) if isinstance(n, (ast.FunctionDef, ast.AsyncFunctionDef))]
        wanted = set()
        for lo, hi in rngs:
            for f in funcs:
                if f.lineno <= hi + 15 and f.end_lineno >= lo - 2:
                    wanted.add(f)
        for f in sorted(wanted, key=lambda n: n.lineno):
            yield from _mutate_function(rel, lines, f)


def _mutate_function(rel, lines, f):
    tag = f"{rel.rsplit('/', 1)[-1]}:{f.name}"
    for n in ast.walk(f):
        if isinstance(n, ast.Compare) and len(n.ops) == 1 and type(n.ops[0]) in FLIP:
            l, r = n.left, n.comparators[0]
            src = _replace(lines, l.end_lineno, l.end_col_offset, r.lineno, r.col_offset, f" {FLIP[type(n.ops[0])]} ")
            yield f"{tag}:L{n.lineno}:cmp-flip", rel, src
        if isinstance(n, (ast.If, ast.While)) and not isinstance(n.test, ast.Constant):
            t = n.test
            src = _replace(lines, t.lineno, t.col_offset, t.end_lineno, t.end_col_offset, f"not ({_seg(lines, t)})")
            yield f"{tag}:L{n.lineno}:negate-test", rel, src
        if isinstance(n, ast.BoolOp) and len(n.values) == 2:
            a, b = n.values
            op = " or " if isinstance(n.op, ast.And) else " and "
            src = _replace(lines, a.end_lineno, a.end_col_offset, b.lineno, b.col_offset, op)
            yield f"{tag}:L{n.lineno}:and-or", rel, src
        if isinstance(n, ast.Constant) and isinstance(n.value, bool):
            src = _replace(lines, n.lineno, n.col_offset, n.end_lineno, n.end_col_offset, str(not n.value))
            yield f"{tag}:L{n.lineno}:bool-flip", rel, src
        if isinstance(n, ast.UnaryOp) and isinstance(n.op, ast.Not):
            src = _replace(lines, n.lineno, n.col_offset, n.end_lineno, n.end_col_offset, f"({_seg(lines, n.operand)})")
            yield f"{tag}:L{n.lineno}:drop-not", rel, src
        if isinstance(n, ast.Call) and n.keywords and not any(k.arg is None for k in n.keywords):
            for k in n.keywords[:2]:
                ks = (k.value.lineno, k.value.col_offset - len(k.arg) - 1)
                seg = lines[ks[0] - 1]
                if ks[1] < 0 or seg[ks[1]:ks[1] + len(k.arg) + 1] != k.arg + "=":
                    continue
                end = (k.value.end_lineno, k.value.end_col_offset)
                rest = lines[end[0] - 1][end[1]:]
                extra = 1 if rest.startswith(",") else 0
                src = _replace(lines, ks[0], ks[1], end[0], end[1] + extra, "")
                yield f"{tag}:L{k.value.lineno}:drop-kw-{k.arg}", rel, src
    for n in ast.walk(f):
        for fld in ("body", "orelse", "finalbody"):
            body = getattr(n, fld, None)
            if not isinstance(body, list) or not body or not isinstance(body[0], ast.stmt):
                continue
            for i, st in enumerate(body):
                simple = isinstance(st, (ast.Expr, ast.Assign, ast.AugAssign, ast.Raise, ast.Return, ast.Continue, ast.Break, ast.Delete))
                if isinstance(st, ast.Expr) and isinstance(st.value, ast.Constant):
                    continue  # docstring
                if simple and not _is_log(st):
                    indent = lines[st.lineno - 1][:st.col_offset]
                    src = _replace(lines, st.lineno, 0, st.end_lineno, len(lines[st.end_lineno - 1]), indent + "pass")
                    yield f"{tag}:L{st.lineno}:delete-{type(st).__name__}", rel, src
                if i + 1 < len(body):
                    nx = body[i + 1]
                    if simple and isinstance(nx, (ast.Expr, ast.Assign, ast.AugAssign)) and not _is_log(st) and not _is_log(nx):
                        a = "\n".join(lines[st.lineno - 1:st.end_lineno])
                        b = "\n".join(lines[nx.lineno - 1:nx.end_lineno])
                        src = _replace(lines, st.lineno, 0, nx.end_lineno, len(lines[nx.end_lineno - 1]), b + "\n" + a)
                        yield f"{tag}:L{st.lineno}:swap-next", rel, src


def _is_log(st):
    if isinstance(st, ast.Expr) and isinstance(st.value, ast.Call):
        t = ast.unparse(st.value.func)
        return t.startswith(("logger.", "logging.", "click.echo", "click.secho", "print"))
    return False


def _one(args):
    prop, root, name, rel, src = args
    try:
        ast.parse(src)
    except SyntaxError:
        return {"name": name, "status": "syntax"}
    from .main import run_property
    code, out, ctx = run_property(prop, "quick", root, {rel: src}, write=False, quiet=True)
    known, _ = load_known()
    rules = sorted({f.rule for f in (ctx.findings if ctx else []) if f.key not in known})
    return {"name": name, "status": {0: "survived", 1: "killed", 2: "analysis-error"}[code], "rules": rules[:4]}


def run_sweep(prop, root, quiet=False):
    jobs = []
    seen = set()
    for name, rel, src in generate(prop, root):
        if (rel, src) in seen:
            continue
        seen.add((rel, src))
        jobs.append((prop, root, name, rel, src))
    results = []
    if jobs:
        try:
            from multiprocessing import Pool
            with Pool(16) as pool:
                results = pool.map(_one, jobs, chunksize=4)
        except Exception:
            results = [_one(j) for j in jobs]
    results = [r for r in results if r["status"] != "syntax"]
    killed = [r for r in results if r["status"] == "killed"]
    survived = [r for r in results if r["status"] == "survived"]
    err = [r for r in results if r["status"] == "analysis-error"]
    if not quiet:
        print(f"mutation sweep {prop}: {len(results)} first-order edits of the anchored functions: {len(killed)} flagged, {len(survived)} not flagged "
              f"(equivalent, outside this property, or a gap - listed in the evidence), {len(err)} analysis errors")
    return {"edits": len(results), "flagged": len(killed), "not_flagged": len(survived), "analysis_errors": len(err),
            "not_flagged_names": [r["name"] for r in survived][:400], "flagged_sample": killed[:25],
            "analysis_error_names": [r["name"] for r in err][:50],
            "note": "an edit that is not flagged is not necessarily a miss: many are behaviour-preserving, affect logging only, or break a different property"}

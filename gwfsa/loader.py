"""Discover and parse every module the build ships (src/gwf/**) plus the entry-point registry."""
import ast
import os
import tomllib


class AnalysisError(Exception):
    """An anchor vanished or the analysed tree cannot be understood at all (exit 2, never a VIOLATION)."""


class Module:
    __slots__ = ("name", "relpath", "path", "source", "tree", "lines", "is_package")

    def __init__(self, name, relpath, path, source, is_package):
        self.name = name
        self.relpath = relpath
        self.path = path
        self.source = source
        self.is_package = is_package
        try:
            self.tree = ast.parse(source, filename=relpath)
        except SyntaxError as exc:
            raise AnalysisError(f"cannot parse {relpath}: {exc}") from exc
        self.lines = source.splitlines()
        for node in ast.walk(self.tree):
            for child in ast.iter_child_nodes(node):
                child._parent = node
        self.tree._parent = None
        for node in ast.walk(self.tree):
            node._module = self

    def seg(self, node):
        try:
            return ast.get_source_segment(self.source, node) or ast.unparse(node)
        except Exception:
            return ast.unparse(node)


# Hand-confirmed minimum counts for the unchanged tree (vacuity guard, DESIGN 3.1).
MIN_MODULES = 27
MIN_COMMANDS = 9
MIN_BACKENDS = 4


class Repo:
    def __init__(self, root=None, overrides=None):
        self.root = os.path.abspath(root or os.environ.get("GWF_SA_REPO", "/repo"))
        self.overrides = dict(overrides or {})
        self.modules = {}
        self.by_relpath = {}
        self._load()

    def read(self, relpath):
        if relpath in self.overrides:
            return self.overrides[relpath]
        with open(os.path.join(self.root, relpath), encoding="utf-8") as fh:
            return fh.read()

    def _load(self):
        try:
            pyproject = tomllib.loads(self.read("pyproject.toml"))
        except (OSError, tomllib.TOMLDecodeError) as exc:
            raise AnalysisError(f"cannot read pyproject.toml: {exc}") from exc
        project = pyproject.get("project", {})
        eps = project.get("entry-points", {})
        self.commands = dict(eps.get("gwf.plugins", {}))
        self.backends = dict(eps.get("gwf.backends", {}))
        self.scripts = dict(project.get("scripts", {}))
        pkg_root = os.path.join(self.root, "src", "gwf")
        if not os.path.isdir(pkg_root):
            raise AnalysisError("src/gwf not found")
        rels = set()
        for dirpath, dirnames, filenames in os.walk(pkg_root):
            dirnames[:] = sorted(d for d in dirnames if d != "__pycache__")
            for fn in sorted(filenames):
                if fn.endswith(".py"):
                    rels.add(os.path.relpath(os.path.join(dirpath, fn), self.root))
        rels.update(r for r in self.overrides if r.startswith("src/gwf/") and r.endswith(".py"))
        for rel in sorted(rels):
            parts = rel[len("src/"):-3].split(os.sep)
            is_pkg = parts[-1] == "__init__"
            if is_pkg:
                parts = parts[:-1]
            name = ".".join(parts)
            mod = Module(name, rel, os.path.join(self.root, rel), self.read(rel), is_pkg)
            self.modules[name] = mod
            self.by_relpath[rel] = mod
        if len(self.modules) < MIN_MODULES:
            raise AnalysisError(f"only {len(self.modules)} modules found under src/gwf (expected >= {MIN_MODULES})")
        if len(self.commands) < MIN_COMMANDS:
            raise AnalysisError(f"only {len(self.commands)} gwf.plugins entry points (expected >= {MIN_COMMANDS})")
        if len(self.backends) < MIN_BACKENDS:
            raise AnalysisError(f"only {len(self.backends)} gwf.backends entry points (expected >= {MIN_BACKENDS})")

    def module(self, name):
        try:
            return self.modules[name]
        except KeyError:
            raise AnalysisError(f"module {name} not found") from None

    def units(self):
        return {
            "modules": len(self.modules),
            "commands": sorted(self.commands),
            "backends": sorted(self.backends),
            "lines": sum(len(m.lines) for m in self.modules.values()),
        }

"""Small AST helpers shared by the rules."""
import ast


def bool_skeleton(expr, atoms):
    """Evaluate a boolean expression under assignments of recognised atoms: returns f(assignment dict) -> bool|None."""
    def ev(e, asg):
        for name, pred in atoms.items():
            if pred(e):
                return asg[name]
        if isinstance(e, ast.BoolOp):
            vals = [ev(v, asg) for v in e.values]
            if isinstance(e.op, ast.And):
                if any(v is False for v in vals):
                    return False
                return None if any(v is None for v in vals) else True
            if any(v is True for v in vals):
                return True
            return None if any(v is None for v in vals) else False
        if isinstance(e, ast.UnaryOp) and isinstance(e.op, ast.Not):
            v = ev(e.operand, asg)
            return None if v is None else not v
        return None
    return lambda asg: ev(expr, asg)


def truth_table(expr, atoms):
    """{assignment tuple: value} over all assignments of the atoms (sorted by atom name)."""
    import itertools
    names = sorted(atoms)
    f = bool_skeleton(expr, atoms)
    return {vals: f(dict(zip(names, vals))) for vals in itertools.product((False, True), repeat=len(names))}


def single_assignments(fnode):
    """{name: value node} for locals assigned exactly once (plain `name = expr`) in the function."""
    from .index import walk_no_nested
    counts, vals = {}, {}
    for n in walk_no_nested(fnode):
        if isinstance(n, (ast.Assign, ast.AnnAssign, ast.AugAssign)):
            tgts = n.targets if isinstance(n, ast.Assign) else [n.target]
            for t in tgts:
                for x in ast.walk(t):
                    if isinstance(x, ast.Name) and isinstance(x.ctx, ast.Store):
                        counts[x.id] = counts.get(x.id, 0) + 1
                        if isinstance(n, ast.Assign) and len(n.targets) == 1 and isinstance(n.targets[0], ast.Name):
                            vals[x.id] = n.value
        elif isinstance(n, (ast.For, ast.AsyncFor, ast.With, ast.AsyncWith, ast.ExceptHandler, ast.comprehension)):
            tg = []
            if isinstance(n, (ast.For, ast.AsyncFor, ast.comprehension)):
                tg = [n.target]
            elif isinstance(n, (ast.With, ast.AsyncWith)):
                tg = [i.optional_vars for i in n.items if i.optional_vars is not None]
            for t in tg:
                for x in ast.walk(t):
                    if isinstance(x, ast.Name):
                        counts[x.id] = counts.get(x.id, 0) + 2  # never an alias
    a = fnode.args
    for p in a.posonlyargs + a.args + a.kwonlyargs:
        counts[p.arg] = counts.get(p.arg, 0) + 2
    return {k: v for k, v in vals.items() if counts.get(k) == 1}


def clone(node):
    """Copy an AST subtree by its syntactic fields only (never follows the _parent/_module back references)."""
    if isinstance(node, list):
        return [clone(x) for x in node]
    if not isinstance(node, ast.AST):
        return node
    new = type(node)()
    for f in node._fields:
        if hasattr(node, f):
            setattr(new, f, clone(getattr(node, f)))
    for a in ("lineno", "col_offset", "end_lineno", "end_col_offset"):
        if hasattr(node, a):
            setattr(new, a, getattr(node, a))
    return new


class _Expand(ast.NodeTransformer):
    def __init__(self, table, depth=4):
        self.table = table
        self.depth = depth

    def visit_Name(self, node):
        if isinstance(node.ctx, ast.Load) and node.id in self.table and self.depth > 0:
            sub = clone(self.table[node.id])
            return _Expand(self.table, self.depth - 1).visit(sub)
        return node


def expand(fnode, expr, table=None):
    """Text of expr with single-assignment locals replaced by the expressions they name (hoisted pure calls, path joins ...)."""
    if expr is None:
        return None
    table = table if table is not None else single_assignments(fnode)
    return ast.unparse(_Expand(table).visit(clone(expr)))

"""Small AST helpers shared by the rules."""
import ast


def bool_skeleton(expr, atoms):
    """Evaluate a boolean expression under assignments of recognised atoms: returns f(assignment dict) -> bool|None."""
    def ev(e, asg):
        for name, pred in atoms.items():
            if pred(e):
                return asg[name]
        if isinstance(e, ast.BoolOp):
            vals = [ev(v, asg) for v in e.values]
            if isinstance(e.op, ast.And):
                if any(v is False for v in vals):
                    return False
                return None if any(v is None for v in vals) else True
            if any(v is True for v in vals):
                return True
            return None if any(v is None for v in vals) else False
        if isinstance(e, ast.UnaryOp) and isinstance(e.op, ast.Not):
            v = ev(e.operand, asg)
            return None if v is None else not v
        return None
    return lambda asg: ev(expr, asg)


def truth_table(expr, atoms):
    """{assignment tuple: value} over all assignments of the atoms (sorted by atom name)."""
    import itertools
    names = sorted(atoms)
    f = bool_skeleton(expr, atoms)
    return {vals: f(dict(zip(names, vals))) for vals in itertools.product((False, True), repeat=len(names))}

"""Evaluation of a *code -> class* mapping written as straight-line code with if/elif and table lookups.

Used only to evaluate the state tables/predicates of the backends over the finite set of documented scheduler
state codes (table evaluation, DESIGN 3.2) - never to run scheduler interaction, loops or I/O.
"""
import ast

from .consteval import CantEval


class Stop(Exception):
    def __init__(self, kind):
        self.kind = kind


class MappingError(Exception):
    pass


def eval_block(ev, module, stmts, env, stores):
    """Interpret statements; `stores` collects (target text, key value, value) of subscript stores. Returns env."""
    for st in stmts:
        if isinstance(st, ast.Assign):
            try:
                val = ev.eval(st.value, module, env)
            except CantEval as exc:
                if _lookup_fails(st.value):
                    raise MappingError(f"lookup fails: {exc}")
                continue  # opaque value (I/O, logging ...): leave the name unbound
            for t in st.targets:
                if isinstance(t, ast.Name):
                    env[t.id] = val
                elif isinstance(t, (ast.Tuple, ast.List)):
                    try:
                        vals = list(val)
                    except TypeError:
                        continue
                    for tt, vv in zip(t.elts, vals):
                        if isinstance(tt, ast.Name):
                            env[tt.id] = vv
                elif isinstance(t, ast.Subscript):
                    try:
                        key = ev.eval(t.slice, module, env)
                    except CantEval:
                        key = None
                    stores.append((ast.unparse(t.value), key, val))
        elif isinstance(st, ast.If):
            try:
                truth = ev.eval(st.test, module, env)
            except CantEval as exc:
                raise MappingError(f"cannot decide {ast.unparse(st.test)!r}: {exc}")
            eval_block(ev, module, st.body if truth else st.orelse, env, stores)
        elif isinstance(st, ast.Continue):
            raise Stop("continue")
        elif isinstance(st, ast.Break):
            raise Stop("break")
        elif isinstance(st, ast.Return):
            raise Stop("return")
        elif isinstance(st, (ast.Expr, ast.Pass, ast.Assert)):
            continue
        elif isinstance(st, ast.Try):
            try:
                eval_block(ev, module, st.body, env, stores)
            except MappingError:
                # e.g. `except KeyError: state = UNKNOWN`
                for h in st.handlers:
                    eval_block(ev, module, h.body, env, stores)
                    break
        else:
            continue
    return env


def _lookup_fails(expr):
    return any(isinstance(n, ast.Subscript) for n in ast.walk(expr))


def map_code(ev, module, stmts, env):
    """Run the block for one code; returns the list of stores (may be empty when the code is skipped)."""
    stores = []
    try:
        eval_block(ev, module, stmts, dict(env), stores)
    except Stop:
        pass
    return stores

"""Frozen reference: scheduler option flags and dependency syntaxes (sbatch(1), qsub(1), bsub(1)); one reason per row."""

SBATCH_FLAGS = {  # option name -> accepted spellings of the directive prefix
    "nodes": ("-N ", "--nodes="), "cores": ("-c ", "--cpus-per-task="), "memory": ("--mem=",), "walltime": ("-t ", "--time="),
    "queue": ("-p ", "--partition="), "account": ("-A ", "--account="), "constraint": ("-C ", "--constraint="),
    "mail_type": ("--mail-type=",), "mail_user": ("--mail-user=",), "qos": ("--qos=", "-q "), "gres": ("--gres=",),
}
SBATCH_FIXED = {"job_name": ("--job-name=", "-J "), "stdout": ("--output=", "-o "), "stderr": ("--error=", "-e ")}

QSUB_FLAGS = {
    "cores": ("-pe smp ",), "memory": ("-l h_vmem=",), "walltime": ("-l h_rt=",), "queue": ("-q ",), "account": ("-P ",),
}
QSUB_FIXED = {"job_name": ("-N ",), "stdout": ("-o ",), "stderr": ("-e ",)}

BSUB_FLAGS = {"memory": ("-M ",), "cores": ("-n ",), "queue": ("-q ",)}
BSUB_FIXED = {"job_name": ("-J ",), "stdout": ("-oo ", "-o "), "stderr": ("-eo ", "-e ")}

# dependency syntaxes: the statement requires "never starts if one of them failed" on Slurm and LSF -> afterok / done()
DEPENDENCY = {
    "slurm": ("--dependency=afterok:", ":"),   # sbatch --dependency=afterok:id:id
    "sge": ("-hold_jid", ","),                  # qsub -hold_jid id,id  (next argv element)
    "lsf": ("-w", " && ", "done({})"),          # bsub -w 'done(id) && done(id)'
}

"""Frozen reference: scheduler state codes and the classes the property statement (C08) allows for each.

Written from the man pages as remembered (no network in the sandbox): squeue(1)/sacct(1) "JOB STATE CODES",
bjobs(1) "STAT", qstat(1)/sge_status "job states".  One reason per row.  Rows whose class the statement fixes
("queued/held -> submitted, executing -> running, failure -> failed, cancellation -> cancelled, success/no record
-> file-based") are strict; the others are constrained only to the classes that cannot break the property:
LIVE = the job still exists at the scheduler, so it must not look absent/finished (else it is submitted twice).
"""
S, R, C, F, X, U = "SUBMITTED", "RUNNING", "COMPLETED", "FAILED", "CANCELLED", "UNKNOWN"
LIVE = {S, R}

SLURM_SHORT = {
    "BF": ({F}, "BOOT_FAIL: terminated due to launch failure -> failure"),
    "CA": ({X}, "CANCELLED: explicitly cancelled -> cancelled"),
    "CD": ({C, U}, "COMPLETED: exit code zero -> success falls back to files"),
    "CF": (LIVE, "CONFIGURING: allocated, waiting for resources to become ready -> alive"),
    "CG": (LIVE, "COMPLETING: some processes may still be active -> alive"),
    "DL": ({F}, "DEADLINE: terminated on deadline -> failure"),
    "F": ({F}, "FAILED: non-zero exit code -> failure"),
    "NF": ({F}, "NODE_FAIL: node failure -> failure"),
    "OOM": ({F}, "OUT_OF_MEMORY -> failure"),
    "PD": ({S}, "PENDING: awaiting resource allocation -> queued"),
    "PR": ({F, X, S, R}, "PREEMPTED: terminated due to preemption (may be requeued) -> anything but success/absent"),
    "R": ({R}, "RUNNING: has an allocation -> executing"),
    "RD": (LIVE, "RESV_DEL_HOLD: being held -> alive (held = submitted)"),
    "RF": (LIVE, "REQUEUE_FED: being requeued by a federation -> alive"),
    "RH": (LIVE, "REQUEUE_HOLD: held job being requeued -> alive"),
    "RQ": (LIVE, "REQUEUED: completing job being requeued -> alive"),
    "RS": (LIVE, "RESIZING: about to change size -> alive"),
    "RV": ({S, R, X, F}, "REVOKED: sibling removed from cluster because another cluster started the job -> not success/absent"),
    "SI": (LIVE, "SIGNALING: job is being signaled -> alive"),
    "SE": ({S, R, F}, "SPECIAL_EXIT: requeued in a special state -> alive or failure"),
    "SO": (LIVE, "STAGE_OUT: staging out files -> alive"),
    "ST": (LIVE, "STOPPED: has an allocation, stopped with SIGSTOP -> alive"),
    "S": (LIVE, "SUSPENDED: has an allocation, execution suspended -> alive"),
    "TO": ({F}, "TIMEOUT: reached its time limit -> failure"),
}

SLURM_LONG = {  # sacct(1) prints the long names
    "BOOT_FAIL": ({F}, "launch failure"),
    "CANCELLED": ({X}, "cancelled (sacct may append ' by <uid>')"),
    "COMPLETED": ({C, U}, "success"),
    "DEADLINE": ({F}, "deadline"),
    "FAILED": ({F}, "non-zero exit"),
    "NODE_FAIL": ({F}, "node failure"),
    "OUT_OF_MEMORY": ({F}, "oom"),
    "PENDING": ({S}, "queued"),
    "PREEMPTED": ({F, X, S, R}, "preempted"),
    "RUNNING": ({R}, "executing"),
    "REQUEUED": (LIVE, "requeued -> alive"),
    "RESIZING": (LIVE, "alive"),
    "REVOKED": ({S, R, X, F}, "sibling revoked"),
    "SUSPENDED": (LIVE, "alive"),
    "TIMEOUT": ({F}, "time limit"),
}

LSF = {  # bjobs(1) STAT
    "PEND": ({S}, "pending -> queued"),
    "PROV": (LIVE, "dispatched to a power-saved host that is waking up -> alive (queued)"),
    "PSUSP": (LIVE, "suspended while pending (held) -> alive"),
    "RUN": ({R}, "running -> executing"),
    "USUSP": (LIVE, "suspended by user while running -> alive"),
    "SSUSP": (LIVE, "suspended by the system while running -> alive"),
    "DONE": ({C, U}, "terminated with status 0 -> success"),
    "EXIT": ({F}, "terminated with non-zero status -> failure"),
    "UNKWN": ({U, R, S}, "mbatchd lost contact with the execution host -> unknown or alive"),
    "WAIT": (LIVE, "chunk job waiting for its turn -> alive (queued)"),
    "ZOMBI": ({R, F, U, X}, "killed/unreachable but not yet cleaned up"),
}

SGE = {  # qstat state strings (letters combine)
    "qw": ({S}, "queued, waiting -> queued"),
    "hqw": (LIVE, "hold + queued -> alive (held = submitted)"),
    "hRwq": (LIVE, "hold, rescheduled, waiting -> alive"),
    "r": ({R}, "running -> executing"),
    "t": (LIVE, "transferring to the execution host -> alive"),
    "Rr": (LIVE, "rescheduled and running -> alive"),
    "Rt": (LIVE, "rescheduled, transferring -> alive"),
    "s": (LIVE, "suspended -> alive"),
    "S": (LIVE, "queue suspended -> alive"),
    "T": (LIVE, "suspend threshold reached -> alive"),
    "Eqw": ({U, F}, "error state while queued -> failure or no record"),
    "dr": ({U, X}, "deletion requested while running -> cancelled or no record"),
    "dt": ({U, X}, "deletion requested while transferring"),
    "dqw": ({U, X}, "deletion requested while queued"),
}

LOCAL = {
    "UNKNOWN": ({U}, "task unknown"),
    "SUBMITTED": ({S}, "queued"),
    "RUNNING": ({R}, "executing"),
    "FAILED": ({F}, "non-zero exit"),
    "COMPLETED": ({C, U}, "success"),
    "CANCELLED": ({X}, "cancelled by user"),
    "KILLED": ({F}, "killed because of time-out -> failure (time-out)"),
}

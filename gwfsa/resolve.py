"""Callee resolution, light type propagation, context-sensitive reachability and primitive effects."""
import ast

from .consteval import CantEval
from .index import FUNC_TYPES, ClassInfo, FuncInfo, dotted, walk_no_nested, enclosing_function, loc

BUILTIN_TYPE = ("ext", "builtin")

# --------------------------------------------------------------------------- effect catalogue
FS_DELETE_CALLS = {"os.remove", "os.unlink", "os.rmdir", "os.removedirs", "shutil.rmtree"}
FS_DELETE_ATTRS = {"unlink", "rmdir", "rmtree"}
FS_WRITE_CALLS = {
    "os.replace", "os.rename", "os.renames", "os.makedirs", "os.mkdir", "os.utime", "os.truncate", "os.symlink",
    "os.link", "shutil.copy", "shutil.copy2", "shutil.copyfile", "shutil.move", "shutil.copytree",
}
FS_WRITE_ATTRS = {"touch", "write_text", "write_bytes", "mkdir", "symlink_to", "hardlink_to"}
PROC_PREFIXES = ("subprocess.", "asyncio.create_subprocess_", "asyncio.subprocess.", "multiprocessing.Process", "os.system",
                 "os.kill", "os.killpg", "os.popen", "os.exec", "os.spawn", "os.fork")
PROMPT_CALLS = {"click.confirm", "click.prompt"}
SCHED_CLASS = {
    "sbatch": "SCHED_SUBMIT", "qsub": "SCHED_SUBMIT", "bsub": "SCHED_SUBMIT",
    "scancel": "SCHED_CANCEL", "qdel": "SCHED_CANCEL", "bkill": "SCHED_CANCEL",
    "squeue": "SCHED_QUERY", "sacct": "SCHED_QUERY", "qstat": "SCHED_QUERY", "bjobs": "SCHED_QUERY", "sinfo": "SCHED_QUERY",
}
LOCAL_CLASS = {
    "enqueue_task": "LOCAL_SUBMIT", "cancel_task": "LOCAL_CANCEL", "shutdown": "LOCAL_SHUTDOWN",
    "get_task_states": "LOCAL_QUERY", "get_task_state": "LOCAL_QUERY", "close": "LOCAL_QUERY",
}
STATE_ATTRS = {"_tracked_jobs": "tracked", "hashes": "hashes"}
MUTATING_METHODS = {"update", "pop", "clear", "setdefault", "popitem", "__setitem__", "__delitem__"}


# calls of these library functions/classes yield library objects (a method called on the result is the library's, whatever it is named)
EXTERNAL_OBJECT_MAKERS = ("subprocess.", "asyncio.create_subprocess_", "asyncio.subprocess.", "asyncio.open_connection", "asyncio.start_server", "asyncio.Semaphore",
                          "asyncio.BoundedSemaphore", "asyncio.Lock", "asyncio.Event", "asyncio.Queue", "asyncio.get_event_loop", "asyncio.get_running_loop", "asyncio.new_event_loop",
                          "socket.", "re.", "logging.", "threading.", "multiprocessing.", "tempfile.", "hashlib.", "io.", "os.stat", "os.lstat", "os.scandir", "os.popen",
                          "xml.", "urllib.", "http.", "selectors.", "signal.", "time.", "datetime.", "shutil.which", "concurrent.futures.", "queue.", "contextlib.ExitStack")


PATHLIB_BUILDERS = ("joinpath", "with_suffix", "with_name", "with_stem", "resolve", "absolute", "expanduser", "relative_to", "with_segments")


class _LambdaMark:
    """Stands for a lambda used as a callable value: calling it runs code that is already part of the enclosing function."""
    key = "<lambda>"

    def __repr__(self):
        return "<lambda>"


LAMBDA_MARK = _LambdaMark()


class BoundFunc:
    """A function value with constant keyword arguments already bound (functools.partial)."""
    __slots__ = ("finfo", "extra")

    def __init__(self, finfo, extra=()):
        self.finfo = finfo
        self.extra = tuple(extra)

    @property
    def key(self):
        return self.finfo.key


class Effect:
    __slots__ = ("kind", "detail", "node", "finfo", "chain")

    def __init__(self, kind, detail, node, finfo, chain=()):
        self.kind = kind
        self.detail = detail
        self.node = node
        self.finfo = finfo
        self.chain = chain

    @property
    def where(self):
        return loc(self.node, self.finfo.module if self.finfo else None)

    def __repr__(self):
        return f"<{self.kind} {self.detail} @{self.where}>"


def pe_test(expr, consts):
    """Partial evaluation of a condition given known constant names: True / False / None (unknown)."""
    if isinstance(expr, ast.Constant):
        return bool(expr.value)
    if isinstance(expr, ast.Name) and expr.id in consts:
        return bool(consts[expr.id])
    if isinstance(expr, ast.UnaryOp) and isinstance(expr.op, ast.Not):
        v = pe_test(expr.operand, consts)
        return None if v is None else not v
    if isinstance(expr, ast.BoolOp):
        vals = [pe_test(v, consts) for v in expr.values]
        if isinstance(expr.op, ast.And):
            if any(v is False for v in vals):
                return False
            return True if all(v is True for v in vals) else None
        if any(v is True for v in vals):
            return True
        return False if all(v is False for v in vals) else None
    if isinstance(expr, ast.Compare) and len(expr.ops) == 1:
        l, r = expr.left, expr.comparators[0]
        def val(e):
            if isinstance(e, ast.Constant):
                return (True, e.value)
            if isinstance(e, ast.Name) and e.id in consts:
                return (True, consts[e.id])
            return (False, None)
        lk, lv = val(l)
        rk, rv = val(r)
        if lk and rk:
            op = expr.ops[0]
            if isinstance(op, (ast.Is, ast.Eq)):
                return lv is rv or lv == rv
            if isinstance(op, (ast.IsNot, ast.NotEq)):
                return not (lv is rv or lv == rv)
    return None


def live_nodes(fnode, consts):
    """Nodes of a function body that are not in statically dead branches (given constant parameter values)."""
    out = []

    def visit(n):
        if isinstance(n, FUNC_TYPES + (ast.ClassDef,)) and n is not fnode:
            out.append(n)
            return
        if isinstance(n, ast.If):
            t = pe_test(n.test, consts)
            out.append(n)
            visit(n.test)
            if t is not False:
                visit_block(n.body)
            if t is not True:
                visit_block(n.orelse)
            return
        if isinstance(n, ast.IfExp):
            t = pe_test(n.test, consts)
            out.append(n)
            visit(n.test)
            if t is not False:
                visit(n.body)
            if t is not True:
                visit(n.orelse)
            return
        if isinstance(n, ast.BoolOp):
            out.append(n)
            for v in n.values:
                visit(v)
                t = pe_test(v, consts)
                if isinstance(n.op, ast.And) and t is False:
                    break
                if isinstance(n.op, ast.Or) and t is True:
                    break
            return
        out.append(n)
        for fld, val in ast.iter_fields(n):
            if isinstance(val, list) and val and isinstance(val[0], ast.stmt):
                visit_block(val)
            elif isinstance(val, list):
                for c in val:
                    if isinstance(c, ast.AST):
                        visit(c)
            elif isinstance(val, ast.AST):
                visit(val)

    def leaves(stmts):
        return bool(stmts) and isinstance(stmts[-1], (ast.Return, ast.Raise, ast.Continue, ast.Break))

    def visit_block(stmts):
        """Statements of one block in order; a guard clause whose test is statically true and whose body leaves ends the block."""
        for st in stmts:
            visit(st)
            if isinstance(st, ast.If):
                t = pe_test(st.test, consts)
                if (t is True and leaves(st.body)) or (t is False and leaves(st.orelse)):
                    break
            elif isinstance(st, (ast.Return, ast.Raise, ast.Continue, ast.Break)):
                break

    visit_block(fnode.body)
    for st in ():
        visit(st)
    for d in fnode.args.defaults + [d for d in fnode.args.kw_defaults if d is not None]:
        visit(d)
    return out


class Resolver:
    def __init__(self, index, evaluator):
        self.index = index
        self.ev = evaluator
        self._ret_cache = {}
        self._local_types = {}
        self._registry = None

    # ------------------------------------------------------------------ registry
    def backend_factories(self):
        """FuncInfos of the backend factories registered in pyproject (`module:setup`, first tuple element)."""
        if self._registry is not None:
            return self._registry
        out = []
        for name, target in sorted(self.index.repo.backends.items()):
            modname, _, attr = target.partition(":")
            if modname not in self.index.repo.modules:
                continue
            val = self.index.globals[modname].get(attr)
            fn = None
            if isinstance(val, ast.Tuple) and val.elts:
                c = self.index.canon(val.elts[0], self.index.repo.modules[modname])
                obj = self.index.lookup(c) if c else None
                if isinstance(obj, FuncInfo):
                    fn = obj
            if fn is not None:
                out.append((name, fn))
        self._registry = out
        return out

    def command_roots(self):
        out = {}
        for name, target in sorted(self.index.repo.commands.items()):
            modname, _, attr = target.partition(":")
            fi = self.index.functions.get(f"{modname}:{attr}")
            if fi is not None:
                out[name] = fi
        return out

    # ------------------------------------------------------------------ types
    def class_of_expr(self, expr, finfo, depth=0):
        """Set of type descriptors of an expression: ('cls', ClassInfo) | ('ext', name) ; empty set = unknown."""
        if depth > 6:
            return set()
        idx = self.index
        if isinstance(expr, (ast.Dict, ast.List, ast.Set, ast.Tuple, ast.ListComp, ast.SetComp, ast.DictComp,
                             ast.GeneratorExp, ast.JoinedStr)):
            return {BUILTIN_TYPE}
        if isinstance(expr, ast.Constant):
            return {BUILTIN_TYPE}
        if isinstance(expr, ast.Name):
            if finfo is not None and expr.id in ("self", "cls") and self._self_class(finfo) is not None:
                return {("cls", self._self_class(finfo))}
            if finfo is not None:
                lt = self.local_types(finfo).get(expr.id)
                if lt:
                    return lt
                f = finfo.outer
                while f is not None:
                    lt = self.local_types(f).get(expr.id)
                    if lt:
                        return lt
                    f = f.outer
            return set()
        if isinstance(expr, ast.Attribute):
            base = self.class_of_expr(expr.value, finfo, depth + 1)
            out = set()
            for kind, c in base:
                if kind == "cls":
                    fld = c.field(expr.attr)
                    if fld is not None and fld[1] is not None:
                        canon = idx.canon(fld[1], c.module)
                        obj = idx.lookup(canon) if canon else None
                        if isinstance(obj, ClassInfo):
                            out.add(("cls", obj))
                        elif canon in ("builtins.dict", "builtins.list", "builtins.set", "builtins.str", "builtins.int",
                                       "collections.defaultdict", "collections.ChainMap"):
                            out.add(BUILTIN_TYPE)
                        elif canon and (canon.startswith("pathlib.") or canon in ("io.TextIOWrapper", "socket.socket")):
                            out.add(("ext", canon))
            return out
        if isinstance(expr, ast.Call):
            canon = idx.canon(expr.func, expr._module) if isinstance(expr.func, (ast.Name, ast.Attribute)) else None
            if canon in ("builtins.dict", "builtins.list", "builtins.set", "builtins.sorted", "builtins.str",
                         "builtins.tuple", "builtins.frozenset", "collections.defaultdict", "collections.Counter",
                         "collections.OrderedDict", "builtins.int", "builtins.len"):
                return {BUILTIN_TYPE}
            if canon == "builtins.open":
                return {("ext", "file")}
            if canon and canon.startswith("pathlib."):
                return {("ext", "pathlib.Path")}
            obj = idx.lookup(canon) if canon else None
            if isinstance(obj, ClassInfo):
                return {("cls", obj)}
            if canon and obj is None and canon.startswith(EXTERNAL_OBJECT_MAKERS):
                return {("ext", canon)}   # a process, socket, match, hash, stat result ...: never an instance of a class of the package
            # x.joinpath(...), x.with_suffix(...), x.resolve() ...: the path-building methods of pathlib, which no class of the package defines - the result is a path
            if isinstance(expr.func, ast.Attribute) and expr.func.attr in PATHLIB_BUILDERS and not any(
                    expr.func.attr in ci.methods for ci in idx.classes.values()):
                return {("ext", "pathlib.Path")}
            out = set()
            for callee in self.callees(expr, finfo, {}):
                if isinstance(callee, BoundFunc):
                    callee = callee.finfo
                if isinstance(callee, FuncInfo):
                    out |= self.return_types(callee, depth + 1)
            return out
        if isinstance(expr, ast.IfExp):
            return self.class_of_expr(expr.body, finfo, depth + 1) | self.class_of_expr(expr.orelse, finfo, depth + 1)
        if isinstance(expr, ast.Await):
            return self.class_of_expr(expr.value, finfo, depth + 1)
        return set()

    def _self_class(self, finfo):
        f = finfo
        while f is not None:
            if f.cls is not None:
                return f.cls
            f = f.outer
        return None

    def local_types(self, finfo):
        if finfo.key in self._local_types:
            return self._local_types[finfo.key]
        types = {}
        self._local_types[finfo.key] = types  # guard against recursion
        idx = self.index
        # annotated parameters
        a = finfo.node.args
        for arg in a.posonlyargs + a.args + a.kwonlyargs:
            if arg.annotation is not None:
                canon = idx.canon(arg.annotation, finfo.module)
                obj = idx.lookup(canon) if canon else None
                if isinstance(obj, ClassInfo):
                    types.setdefault(arg.arg, set()).add(("cls", obj))
        for n in walk_no_nested(finfo.node):
            if isinstance(n, ast.Assign) and len(n.targets) == 1 and isinstance(n.targets[0], ast.Name):
                t = self.class_of_expr(n.value, finfo, 1)
                if t:
                    types.setdefault(n.targets[0].id, set()).update(t)
            elif isinstance(n, (ast.With, ast.AsyncWith)):
                for item in n.items:
                    if isinstance(item.optional_vars, ast.Name):
                        t = self.class_of_expr(item.context_expr, finfo, 1)
                        # __enter__ returning self is the repo's only idiom; ext 'file' too
                        if t:
                            types.setdefault(item.optional_vars.id, set()).update(t)
        return types

    def return_types(self, finfo, depth=0):
        if finfo.key in self._ret_cache:
            return self._ret_cache[finfo.key]
        self._ret_cache[finfo.key] = set()
        out = set()
        if finfo.key == "gwf.backends.base:create_backend" or self._uses_registry(finfo):
            for _name, fac in self.backend_factories():
                out |= self.return_types(fac, depth + 1)
        for n in walk_no_nested(finfo.node):
            if isinstance(n, ast.Return) and n.value is not None:
                v = n.value
                if isinstance(v, ast.Call) and isinstance(v.func, ast.Name) and v.func.id == "cls" and finfo.cls is not None:
                    out.add(("cls", finfo.cls))
                else:
                    out |= self.class_of_expr(v, finfo, depth + 1)
        self._ret_cache[finfo.key] = out
        return out

    def _uses_registry(self, finfo):
        for n in walk_no_nested(finfo.node):
            if isinstance(n, ast.Call) and isinstance(n.func, (ast.Name, ast.Attribute)):
                c = self.index.canon(n.func, finfo.module)
                if c == "gwf.backends.base.discover_backends" and finfo.key != "gwf.backends.base:discover_backends":
                    # value of the registry is *called* in this function?
                    for m in walk_no_nested(finfo.node):
                        if isinstance(m, ast.Call) and isinstance(m.func, ast.Name) and m.func.id in self.index.local_names(finfo):
                            return True
        return False

    # ------------------------------------------------------------------ callables as values
    def callable_values(self, expr, finfo, bindings, depth=0):
        """Functions an expression may denote when used as a callable value: list of (FuncInfo, extra_bindings)."""
        if depth > 5:
            return []
        idx = self.index
        if isinstance(expr, ast.Name):
            if expr.id in bindings and isinstance(bindings[expr.id], tuple):
                return [(f, e) for f, e in bindings[expr.id]]
            canon = idx.canon(expr, expr._module)
            obj = idx.lookup(canon) if canon else None
            if isinstance(obj, FuncInfo):
                return [(obj, ())]
            if finfo is not None and canon is None:
                out = []
                consts = {k: v for k, v in bindings.items() if not isinstance(v, tuple)}
                for n in live_nodes(finfo.node, consts):
                    if isinstance(n, ast.Assign) and any(isinstance(t, ast.Name) and t.id == expr.id for t in n.targets):
                        out.extend(self.callable_values(n.value, finfo, bindings, depth + 1))
                    # loop variable over a collection of callables built in this function: `for f in fs:` / `for flag, f in pairs:`
                    if isinstance(n, (ast.For, ast.AsyncFor)):
                        pos = None
                        if isinstance(n.target, ast.Name) and n.target.id == expr.id:
                            pos = -1
                        elif isinstance(n.target, (ast.Tuple, ast.List)):
                            for i_, e_ in enumerate(n.target.elts):
                                if isinstance(e_, ast.Name) and e_.id == expr.id:
                                    pos = i_
                        if pos is not None:
                            for elt in self._collection_elements(n.iter, finfo, consts):
                                if pos >= 0:
                                    if isinstance(elt, (ast.Tuple, ast.List)) and pos < len(elt.elts):
                                        elt = elt.elts[pos]
                                    else:
                                        continue
                                out.extend(self.callable_values(elt, finfo, bindings, depth + 1))
                return out
            return []
        if isinstance(expr, ast.IfExp):
            consts = {k: v for k, v in bindings.items() if not isinstance(v, tuple)}
            t = pe_test(expr.test, consts)
            out = []
            if t is not False:
                out.extend(self.callable_values(expr.body, finfo, bindings, depth + 1))
            if t is not True:
                out.extend(self.callable_values(expr.orelse, finfo, bindings, depth + 1))
            return out
        if isinstance(expr, ast.Call):
            canon = idx.canon(expr.func, expr._module) if isinstance(expr.func, (ast.Name, ast.Attribute)) else None
            if canon == "functools.partial" and expr.args:
                extra = []
                for kw in expr.keywords:
                    if kw.arg is None:
                        continue
                    if isinstance(kw.value, ast.Constant) and (isinstance(kw.value.value, bool) or kw.value.value is None):
                        extra.append((kw.arg, kw.value.value))
                    elif isinstance(kw.value, ast.Name) and kw.value.id in bindings and not isinstance(bindings[kw.value.id], tuple):
                        extra.append((kw.arg, bindings[kw.value.id]))
                inner = self.callable_values(expr.args[0], finfo, bindings, depth + 1)
                return [(f, tuple(e) + tuple(extra)) for f, e in inner]
            return []
        if isinstance(expr, ast.Attribute):
            canon = idx.canon(expr, expr._module)
            obj = idx.lookup(canon) if canon else None
            if isinstance(obj, FuncInfo):
                return [(obj, ())]
            recv = self.class_of_expr(expr.value, finfo)
            out = []
            if recv:
                for kind, c in recv:
                    if kind == "cls":
                        m = idx.method(c, expr.attr)
                        if m is not None:
                            out.append((m, ()))
                return out
            return [(m, ()) for m in idx.methods_named(expr.attr)]
        if isinstance(expr, ast.Subscript):
            canon = idx.canon(expr.value, expr._module) if isinstance(expr.value, (ast.Name, ast.Attribute)) else None
            obj = idx.lookup(canon) if canon else None
            if isinstance(obj, tuple) and obj[0] == "const" and isinstance(obj[2], ast.Dict):
                # the key may be decided by the constants of this calling context: TABLE[bool(dry_run)], TABLE[dry_run], TABLE["x"]
                key = Ellipsis
                sl = expr.slice
                if isinstance(sl, ast.Call) and isinstance(sl.func, ast.Name) and sl.func.id == "bool" and len(sl.args) == 1:
                    sl = sl.args[0]
                    wrap = bool
                else:
                    wrap = lambda x: x
                if isinstance(sl, ast.Constant):
                    key = wrap(sl.value)
                elif isinstance(sl, ast.Name) and sl.id in bindings and not isinstance(bindings[sl.id], tuple):
                    key = wrap(bindings[sl.id])
                out = []
                for k_, v in zip(obj[2].keys, obj[2].values):
                    if key is not Ellipsis and isinstance(k_, ast.Constant) and k_.value != key:
                        continue
                    out.extend(self.callable_values(v, None, {}, depth + 1))
                return out
            return []
        if isinstance(expr, ast.Lambda):
            # the lambda's own body is part of the enclosing function's nodes (walked there); as a value it adds no callee
            return [(LAMBDA_MARK, ())]
        return []

    def _collection_elements(self, expr, finfo, consts):
        """Element expressions of a list/tuple literal, or of a local list built by a literal plus .append(...) calls."""
        if isinstance(expr, (ast.List, ast.Tuple)):
            return list(expr.elts)
        if isinstance(expr, ast.Name):
            out = []
            for n in live_nodes(finfo.node, consts):
                if isinstance(n, ast.Assign) and any(isinstance(t, ast.Name) and t.id == expr.id for t in n.targets) and isinstance(n.value, (ast.List, ast.Tuple)):
                    out.extend(n.value.elts)
                if isinstance(n, ast.Call) and isinstance(n.func, ast.Attribute) and n.func.attr in ("append", "add") and isinstance(n.func.value, ast.Name) \
                        and n.func.value.id == expr.id and n.args:
                    out.append(n.args[0])
            return out
        return []

    # ------------------------------------------------------------------ callees
    def constructor_targets(self, cinfo):
        out = []
        for name in ("__init__", "__attrs_post_init__", "__post_init__", "__new__"):
            m = self.index.method(cinfo, name)
            if m is not None:
                out.append(m)
        for m in cinfo.methods.values():
            for d in m.node.decorator_list:
                dn = dotted(d.func if isinstance(d, ast.Call) else d) or ""
                if dn.endswith(".default") or dn.endswith(".validator"):
                    out.append(m)
        # field validators / converters / factories given by name
        for _name, _ann, value in cinfo.fields:
            if isinstance(value, ast.Call):
                for kw in value.keywords:
                    if kw.arg in ("validator", "converter", "factory", "default"):
                        for e in (kw.value.elts if isinstance(kw.value, (ast.List, ast.Tuple)) else [kw.value]):
                            if isinstance(e, (ast.Name, ast.Attribute)):
                                c = self.index.canon(e, cinfo.module)
                                obj = self.index.lookup(c) if c else None
                                if isinstance(obj, FuncInfo):
                                    out.append(obj)
        return out

    def callees(self, call, finfo, bindings):
        """Resolve a Call node to a list of FuncInfo | 'ext:<dotted>' | 'attr:<name>' | 'unknown:<text>'."""
        idx = self.index
        f = call.func
        if isinstance(f, ast.Name):
            if f.id in bindings and isinstance(bindings[f.id], tuple):
                return [BoundFunc(fn, ex) for fn, ex in bindings[f.id]]
            # lexical nested function / module function / import
            canon = idx.canon(f, call._module)
            if canon is not None:
                obj = idx.lookup(canon)
                if isinstance(obj, FuncInfo):
                    return [obj]
                if isinstance(obj, ClassInfo):
                    return self.constructor_targets(obj) or [f"ext:{canon}"]
                if isinstance(obj, tuple) and obj[0] == "const":
                    vals = self.callable_values(obj[2], None, {})
                    if vals:
                        return [v[0] for v in vals]
                return [f"ext:{canon}"]
            # local variable holding a callable
            if finfo is not None:
                if f.id == "cls" and self._self_class(finfo) is not None:
                    return self.constructor_targets(self._self_class(finfo)) or ["ext:cls"]
                vals = self.callable_values(f, finfo, bindings)
                if vals:
                    return [v[0] for v in vals]
                # value taken from the backend registry
                if self._local_from_registry(f.id, finfo):
                    return [fac for _n, fac in self.backend_factories()]
                # a parameter that is called: the callables passed at every call site of this function (one level, all sites must resolve)
                via = self._param_callables(f.id, finfo)
                if via:
                    return via
                return [f"param:{f.id}"]
            return [f"unknown:{f.id}"]
        if isinstance(f, ast.Attribute):
            canon = idx.canon(f, call._module)
            if canon is not None:
                obj = idx.lookup(canon)
                if isinstance(obj, FuncInfo):
                    return [obj]
                if isinstance(obj, ClassInfo):
                    return self.constructor_targets(obj) or [f"ext:{canon}"]
                if obj is None and not (canon.split(".")[0] == "gwf"):
                    return [f"ext:{canon}"]
            # super().method()
            if isinstance(f.value, ast.Call) and isinstance(f.value.func, ast.Name) and f.value.func.id == "super":
                c = self._self_class(finfo) if finfo else None
                if c is not None:
                    for b in idx.bases(c):
                        bo = idx.lookup(b)
                        if isinstance(bo, ClassInfo):
                            m = idx.method(bo, f.attr)
                            if m is not None:
                                return [m]
                return [f"attr:{f.attr}"]
            recv = self.class_of_expr(f.value, finfo)
            if recv:
                out = []
                for kind, c in recv:
                    if kind == "cls":
                        m = idx.method(c, f.attr)
                        if m is not None:
                            out.append(m)
                        else:
                            # attribute holding a callable / attrs field of unknown type
                            out.append(f"attr:{f.attr}")
                    else:
                        out.append(f"extattr:{c}.{f.attr}")
                return out
            named = idx.methods_named(f.attr)
            if named:
                return list(named) + [f"attr:{f.attr}"]
            return [f"attr:{f.attr}"]
        if isinstance(f, ast.Call):
            # e.g. partial(...)(...) or decorator factories
            vals = self.callable_values(f, finfo, bindings)
            return [v[0] for v in vals] or ["unknown:call"]
        if isinstance(f, ast.Subscript):
            # FORMATS[format](...)
            canon = idx.canon(f.value, call._module) if isinstance(f.value, (ast.Name, ast.Attribute)) else None
            obj = idx.lookup(canon) if canon else None
            if isinstance(obj, tuple) and obj[0] == "const" and isinstance(obj[2], ast.Dict):
                out = []
                for v in obj[2].values:
                    out.extend(x[0] for x in self.callable_values(v, None, {}))
                if out:
                    return out
            return ["unknown:subscript"]
        return ["unknown:expr"]

    def call_sites(self, finfo):
        """[(caller FuncInfo, Call node)] for every resolved call of `finfo` in the package (reverse call graph, built once)."""
        if not hasattr(self, "_rev"):
            self._rev = {}
            self._building_rev = True
            try:
                for g in self.index.functions.values():
                    for n in walk_no_nested(g.node):
                        if isinstance(n, ast.Call):
                            try:
                                cs = self.callees(n, g, {})
                            except Exception:
                                cs = []
                            for c in cs:
                                fi = getattr(c, "finfo", c)
                                if isinstance(fi, FuncInfo):
                                    self._rev.setdefault(fi.key, []).append((g, n))
            finally:
                self._building_rev = False
        return self._rev.get(finfo.key, [])

    def _param_callables(self, pname, finfo):
        if getattr(self, "_building_rev", False) or getattr(self, "_in_param", False):
            return None
        params = [a.arg for a in finfo.node.args.posonlyargs + finfo.node.args.args]
        if pname not in params and pname not in [a.arg for a in finfo.node.args.kwonlyargs]:
            return None
        pos = params.index(pname) if pname in params else None
        if pos is not None and finfo.cls is not None and params and params[0] in ("self", "cls"):
            pos -= 1
        sites = self.call_sites(finfo)
        if not sites:
            return None
        out = []
        self._in_param = True
        try:
            for g, call in sites:
                arg = None
                for kw in call.keywords:
                    if kw.arg == pname:
                        arg = kw.value
                if arg is None and pos is not None and 0 <= pos < len(call.args) and not any(isinstance(a, ast.Starred) for a in call.args[: pos + 1]):
                    arg = call.args[pos]
                if arg is None:
                    # default value of the parameter
                    a = finfo.node.args
                    names = [x.arg for x in a.posonlyargs + a.args]
                    dmap = dict(zip(names[len(names) - len(a.defaults):], a.defaults))
                    arg = dmap.get(pname)
                    if arg is None:
                        return None
                    vals = self.callable_values(arg, finfo, {})
                else:
                    vals = self.callable_values(arg, g, {})
                if not vals and isinstance(arg, ast.Name) and getattr(self, "_param_depth", 0) < 3:
                    # the argument is itself a parameter of the caller (or of a function enclosing it): what is passed there, transitively
                    owner = g
                    while owner is not None:
                        a_ = owner.node.args
                        if arg.id in [x.arg for x in a_.posonlyargs + a_.args + a_.kwonlyargs]:
                            break
                        owner = getattr(owner, "outer", None)
                    if owner is not None:
                        self._in_param = False
                        self._param_depth = getattr(self, "_param_depth", 0) + 1
                        try:
                            sub_vals = self._param_callables(arg.id, owner)
                        finally:
                            self._in_param = True
                            self._param_depth -= 1
                        if sub_vals:
                            out.extend(sub_vals)
                            continue
                if not vals:
                    # a builtin or external function passed as a value (max, min, json.load, ...): no repo effects of its own
                    c = self.index.canon(arg, g.module if arg is not None and hasattr(g, "module") else finfo.module) if isinstance(arg, (ast.Name, ast.Attribute)) else None
                    if c is not None and not c.startswith("gwf.") and self.index.lookup(c) is None:
                        out.append(f"ext:{c}")
                        continue
                    return None
                out.extend(v[0] for v in vals)
        finally:
            self._in_param = False
        uniq, seen = [], set()
        for o in out:
            k = getattr(o, "key", repr(o))
            if k not in seen:
                seen.add(k)
                uniq.append(o)
        return uniq

    def owned_by(self, finfo, roots, _seen=None):
        """True if `finfo` is one of `roots` (keys, prefix match for nested functions) or a helper all of whose callers are, transitively."""
        _seen = _seen if _seen is not None else set()
        if any(finfo.key == r or finfo.key.startswith(r + ".<locals>") or finfo.key.startswith(r + ".") for r in roots):
            return True
        if finfo.key in _seen:
            return True  # a cycle among helpers adds no new caller
        _seen.add(finfo.key)
        sites = self.call_sites(finfo)
        if not sites:
            return False
        return all(self.owned_by(g, roots, _seen) for g, _c in sites)

    def _local_from_registry(self, name, finfo, _seen=None):
        _seen = _seen if _seen is not None else set()
        if name in _seen:
            return False
        _seen.add(name)
        for n in walk_no_nested(finfo.node):
            if isinstance(n, ast.Assign):
                tgt_names = set()
                for t in n.targets:
                    for x in ast.walk(t):
                        if isinstance(x, ast.Name):
                            tgt_names.add(x.id)
                if name in tgt_names:
                    for c in ast.walk(n.value):
                        if isinstance(c, ast.Call) and isinstance(c.func, (ast.Name, ast.Attribute)):
                            cn = self.index.canon(c.func, finfo.module)
                            if cn == "gwf.backends.base.discover_backends":
                                return True
                            callee = self.index.lookup(cn) if cn else None
                            if isinstance(callee, FuncInfo) and callee.key != finfo.key and any(
                                    isinstance(x, ast.Call) and isinstance(x.func, (ast.Name, ast.Attribute))
                                    and self.index.canon(x.func, callee.module) == "gwf.backends.base.discover_backends" for x in walk_no_nested(callee.node)):
                                return True  # e.g. factory = _load_backend_factory(name)
                    # taken out of a local that itself holds the registry: backends = discover_backends(); cls, _ = backends[name]
                    for x in ast.walk(n.value):
                        if isinstance(x, ast.Name) and x.id != name and self._local_from_registry(x.id, finfo, _seen):
                            return True
        return False

    # ------------------------------------------------------------------ primitive effects of one node
    def node_effects(self, n, finfo, consts=None):
        idx = self.index
        out = []
        self._ctx_consts = consts or {}
        if isinstance(n, ast.Call):
            canon = idx.canon(n.func, n._module) if isinstance(n.func, (ast.Name, ast.Attribute)) else None
            attr = n.func.attr if isinstance(n.func, ast.Attribute) else None
            if canon in FS_DELETE_CALLS:
                out.append(Effect("FS_DELETE", canon, n, finfo))
            elif canon in FS_WRITE_CALLS:
                out.append(Effect("FS_WRITE", canon, n, finfo))
            elif canon == "builtins.open" or (canon is None and attr == "open" and not idx.methods_named("open")):
                mode = self._open_mode(n, finfo, is_method=canon is None)
                if mode is None or any(ch in mode for ch in "wax+"):
                    out.append(Effect("FS_WRITE", f"open(mode={mode!r})", n, finfo))
                else:
                    out.append(Effect("FS_READ", f"open(mode={mode!r})", n, finfo))
            elif canon in PROMPT_CALLS:
                out.append(Effect("PROMPT", canon, n, finfo))
            elif canon and canon.startswith(PROC_PREFIXES):
                out.append(Effect("PROC", canon, n, finfo))
            elif canon == "gwf.backends.utils.call" or canon in idx.command_runners():
                exe = self._first_arg_const(n, finfo)
                out.append(Effect(SCHED_CLASS.get(exe, "SCHED_UNKNOWN"), str(exe), n, finfo))
            elif canon is None and attr is not None:
                recv_types = self.class_of_expr(n.func.value, finfo)
                is_builtin = recv_types and all(t == BUILTIN_TYPE for t in recv_types)
                if not is_builtin:
                    if attr in FS_DELETE_ATTRS:
                        out.append(Effect("FS_DELETE", f".{attr}()", n, finfo))
                    elif attr in FS_WRITE_ATTRS:
                        out.append(Effect("FS_WRITE", f".{attr}()", n, finfo))
                    elif attr in ("rename", "replace") and any(t == ("ext", "pathlib.Path") for t in recv_types):
                        out.append(Effect("FS_WRITE", f"Path.{attr}()", n, finfo))
                    elif attr in ("kill", "terminate", "send_signal") and not idx.methods_named(attr):
                        out.append(Effect("PROC", f".{attr}()", n, finfo))
                # Client.send(kind, ...)
                if attr == "send":
                    for callee in self.callees(n, finfo, {}):
                        if isinstance(callee, FuncInfo) and callee.key == "gwf.backends.local:Client.send":
                            kind = self._first_arg_const(n, finfo)
                            out.append(Effect(LOCAL_CLASS.get(kind, "LOCAL_UNKNOWN"), str(kind), n, finfo))
                # mutation of state maps through methods
                if attr in MUTATING_METHODS and isinstance(n.func.value, ast.Attribute) and n.func.value.attr in STATE_ATTRS:
                    out.append(Effect("STATE_MUT", STATE_ATTRS[n.func.value.attr], n, finfo))
        elif isinstance(n, (ast.Assign, ast.AugAssign, ast.AnnAssign, ast.Delete)):
            targets = n.targets if isinstance(n, (ast.Assign, ast.Delete)) else [n.target]
            for t in targets:
                for tt in (t.elts if isinstance(t, (ast.Tuple, ast.List)) else [t]):
                    if isinstance(tt, ast.Subscript) and isinstance(tt.value, ast.Attribute) and tt.value.attr in STATE_ATTRS:
                        out.append(Effect("STATE_MUT", STATE_ATTRS[tt.value.attr], n, finfo))
                    elif isinstance(tt, ast.Attribute) and tt.attr in STATE_ATTRS and not self._is_init(finfo):
                        out.append(Effect("STATE_MUT", STATE_ATTRS[tt.attr], n, finfo))
        return out

    def _is_init(self, finfo):
        if finfo is None:
            return False
        if finfo.name in ("__init__", "__attrs_post_init__"):
            return True
        if any((dn or "").endswith(".default") for dn in finfo.decorator_names()):
            return True
        # a private loader only the initialiser calls
        if finfo.cls is not None and finfo.name.startswith("_") and not getattr(self, "_building_rev", False) and not getattr(self, "_in_isinit", False):
            self._in_isinit = True
            try:
                sites = self.call_sites(finfo)
                return bool(sites) and all(self._is_init(g) for g, _c in sites)
            finally:
                self._in_isinit = False
        return False

    def _open_mode(self, call, finfo, is_method=False):
        mode_node = None
        pos = 0 if is_method else 1
        if len(call.args) > pos:
            mode_node = call.args[pos]
        for kw in call.keywords:
            if kw.arg == "mode":
                mode_node = kw.value
        if mode_node is None:
            return "r"
        try:
            v = self.ev.eval(mode_node, call._module)
            return v if isinstance(v, str) else None
        except CantEval:
            return None

    def _first_arg_const(self, call, finfo, _depth=0):
        if not call.args:
            return None
        a = call.args[0]
        if isinstance(a, ast.Starred):
            # call(*CONSTANT_TUPLE, ...): a module-level command tuple
            try:
                v = self.ev.eval(a.value, call._module)
                if isinstance(v, (list, tuple)) and v and isinstance(v[0], str):
                    return v[0]
            except CantEval:
                pass
            # call(*cmd): look at the list literal assigned to cmd in this function (`[exe, ...]`, `[exe, ...] + ids`, `list((exe, ...))`)
            def head(e):
                if isinstance(e, (ast.List, ast.Tuple)) and e.elts:
                    if isinstance(e.elts[0], ast.Constant):
                        return e.elts[0].value
                    try:
                        return self.ev.eval(e.elts[0], call._module)
                    except CantEval:
                        return None
                if isinstance(e, ast.BinOp) and isinstance(e.op, ast.Add):
                    return head(e.left)
                if isinstance(e, ast.Call) and isinstance(e.func, ast.Name) and e.func.id in ("list", "tuple") and len(e.args) == 1:
                    return head(e.args[0])
                try:
                    v_ = self.ev.eval(e, call._module)
                    if isinstance(v_, (list, tuple)) and v_ and isinstance(v_[0], str):
                        return v_[0]
                except CantEval:
                    pass
                return None
            if isinstance(a.value, ast.Name) and finfo is not None:
                heads = [head(n.value) for n in walk_no_nested(finfo.node)
                         if isinstance(n, ast.Assign) and any(isinstance(t, ast.Name) and t.id == a.value.id for t in n.targets)]
                if heads and all(h is not None for h in heads):
                    # several assignments: report the one that is not a pure read, if any
                    for h in heads:
                        if SCHED_CLASS.get(h, LOCAL_CLASS.get(h)) not in ("SCHED_READ", "LOCAL_READ"):
                            return h
                    return heads[0]
                return None
            return head(a.value)
        try:
            return self.ev.eval(a, call._module)
        except CantEval:
            pass
        if isinstance(a, ast.Name) and isinstance(getattr(self, "_ctx_consts", {}).get(a.id), str):
            return self._ctx_consts[a.id]   # bound in this calling context
        # a parameter of a thin wrapper (e.g. Client._request(kind, ...)): the constants passed at all of its call sites, if they agree in class
        if isinstance(a, ast.Name) and finfo is not None and _depth < 2 and not getattr(self, "_building_rev", False):
            params = [x.arg for x in finfo.node.args.posonlyargs + finfo.node.args.args]
            if a.id in params:
                pos = params.index(a.id) - (1 if finfo.cls is not None and params and params[0] in ("self", "cls") else 0)
                vals = set()
                for g, site in self.call_sites(finfo):
                    arg = next((k.value for k in site.keywords if k.arg == a.id), None)
                    if arg is None and 0 <= pos < len(site.args):
                        arg = site.args[pos]
                    if arg is None:
                        return None
                    try:
                        vals.add(self.ev.eval(arg, site._module))
                    except CantEval:
                        return None
                if vals:
                    classes = {LOCAL_CLASS.get(v, SCHED_CLASS.get(v, "?")) for v in vals}
                    # report the "worst" constant: anything that is not a pure read wins
                    for v in sorted(vals, key=str):
                        if LOCAL_CLASS.get(v, SCHED_CLASS.get(v)) not in ("LOCAL_READ", "SCHED_READ", None):
                            return v
                    return sorted(vals, key=str)[0]
        return None

    # ------------------------------------------------------------------ reachability
    def bind_args(self, call, callee, finfo, bindings):
        """Constant / callable bindings of the callee's parameters at this call site."""
        new = {}
        params = callee.positional_params()
        all_params = callee.params()
        offset = 0
        if callee.cls is not None and params and params[0] in ("self", "cls"):
            decos = callee.decorator_names()
            if "staticmethod" not in decos:
                offset = 1
        pairs = []
        for i, a in enumerate(call.args):
            if isinstance(a, ast.Starred):
                break
            if i + offset < len(params):
                pairs.append((params[i + offset], a))
        for kw in call.keywords:
            if kw.arg and kw.arg in all_params:
                pairs.append((kw.arg, kw.value))
        consts = {k: v for k, v in bindings.items() if not isinstance(v, tuple)}
        for pname, a in pairs:
            if isinstance(a, ast.Constant) and (isinstance(a.value, (bool, str)) or a.value is None):
                new[pname] = a.value   # strings too: message kinds / command names handed to thin wrappers
            elif isinstance(a, ast.Name) and a.id in bindings:
                new[pname] = bindings[a.id]
            else:
                vals = self.callable_values(a, finfo, bindings)
                if vals:
                    items = []
                    for v in vals:
                        ex = tuple(v[1])
                        if getattr(v[0], "outer", None) is not None:
                            # a closure handed on as a value keeps seeing the bindings of the context it was created in
                            have = {k for k, _v in ex}
                            ex = ex + tuple((k, val) for k, val in bindings.items() if k not in have)
                        items.append((v[0], ex))
                    new[pname] = tuple(dict.fromkeys(items))
                    # partial(f, k=v) : remember constant keyword bindings of the partial for f itself
        # defaults that are constant bools
        return new

    def reach(self, root, bindings=None, stop=None, with_prefix=None):
        """Context-sensitive reachability. Returns (visited {(key, bindings)}, effects [Effect], unresolved [str])."""
        bindings = dict(bindings or {})
        visited = {}
        effects = []
        unresolved = []
        stack = [(root, bindings, (root.key,))]
        while stack:
            fi, b, chain = stack.pop()
            ck = (fi.key, tuple(sorted((k, v if not isinstance(v, tuple) else tuple((x.key, e) for x, e in v)) for k, v in b.items())))
            if ck in visited:
                continue
            visited[ck] = chain
            if stop is not None and stop(fi):
                continue
            consts = {k: v for k, v in b.items() if not isinstance(v, tuple)}
            for n in live_nodes(fi.node, consts):
                if isinstance(n, FUNC_TYPES):
                    continue  # nested defs are entered when called
                for e in self.node_effects(n, fi, consts):
                    e.chain = chain
                    effects.append(e)
                if isinstance(n, (ast.With, ast.AsyncWith)):
                    for item in n.items:
                        types = self.class_of_expr(item.context_expr, fi)
                        targets = []
                        if types:
                            for kind, c in types:
                                if kind == "cls":
                                    for mn in ("__enter__", "__exit__", "__aenter__", "__aexit__"):
                                        m = self.index.method(c, mn)
                                        if m is not None:
                                            targets.append(m)
                        else:
                            ce = item.context_expr
                            ext = False
                            if isinstance(ce, ast.Call) and isinstance(ce.func, (ast.Name, ast.Attribute)):
                                cn = self.index.canon(ce.func, ce._module)
                                ext = cn is not None and not cn.startswith("gwf.")
                                # a generator function of the package decorated with contextlib.contextmanager: entering and leaving the block runs ITS body
                                # (reached through the call itself), not the __enter__/__exit__ of some class
                                fo = self.index.lookup(cn) if cn else None
                                if isinstance(fo, FuncInfo) and any((self.index.canon(d.func if isinstance(d, ast.Call) else d, fo.module) or "") in (
                                        "contextlib.contextmanager", "contextlib.asynccontextmanager") for d in getattr(fo.node, "decorator_list", [])
                                        if isinstance(d.func if isinstance(d, ast.Call) else d, (ast.Name, ast.Attribute))):
                                    ext = True
                            if not ext:
                                for mn in ("__enter__", "__exit__"):
                                    targets.extend(self.index.methods_named(mn))
                        for m in targets:
                            stack.append((m, {}, chain + (m.key,)))
                if isinstance(n, ast.Call):
                    # nested-function bindings are inherited lexically
                    for callee in self.callees(n, fi, b):
                        extra = ()
                        if isinstance(callee, BoundFunc):
                            callee, extra = callee.finfo, callee.extra
                        if isinstance(callee, FuncInfo):
                            nb = self.bind_args(n, callee, fi, b)
                            nb.update(dict(extra))
                            if callee.outer is not None:
                                # closures see the enclosing function's bindings
                                inherited = dict(b)
                                inherited.update(nb)
                                nb = inherited
                            stack.append((callee, nb, chain + (callee.key,)))
                        elif isinstance(callee, _LambdaMark):
                            continue  # body already walked as part of the function that contains the lambda
                        elif callee.startswith(("unknown:", "param:")):
                            unresolved.append(f"{loc(n, fi.module)} {callee} in {fi.key}")
                    # callables passed as arguments to external functions may be invoked by them
                    canon = self.index.canon(n.func, n._module) if isinstance(n.func, (ast.Name, ast.Attribute)) else None
                    if canon is None or not canon.startswith("gwf."):
                        for a in list(n.args) + [k.value for k in n.keywords]:
                            if isinstance(a, (ast.Name, ast.Attribute, ast.Call)):
                                for fv, _ in self.callable_values(a, fi, b):
                                    if canon in ("functools.partial",):
                                        continue
                                    if self._is_external_invoker(n, fi):
                                        stack.append((fv, {}, chain + (fv.key,)))
        return visited, effects, unresolved

    def _is_external_invoker(self, call, fi):
        """External callee that invokes its callable arguments (asyncio.create_task/run/start_server, map, Process...)."""
        canon = self.index.canon(call.func, call._module) if isinstance(call.func, (ast.Name, ast.Attribute)) else None
        if canon is None:
            return False
        return canon.startswith(("asyncio.", "multiprocessing.", "threading.", "builtins.map", "builtins.filter",
                                 "builtins.sorted", "builtins.max", "builtins.min", "concurrent."))

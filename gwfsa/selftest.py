"""Thorough tier: run the property's rules on in-memory variants of the current tree.

* /verif/mutants/<id>.json : hand-written edits (file, old snippet, new snippet), kind 'break' or 'equiv'
* /verif/seeded/<name>/patch.diff + meta.json : changes written by independent sub-agents (unified diffs)
A 'break' variant must yield a VIOLATION, an 'equiv' variant must stay silent.  Results are evidence only; they
never change the verdict on the working tree (an unexpected result prints SELFTEST-WARN).
"""
import json
import os
import re

from .loader import Repo
from .report import VERIF, load_known


def apply_unified_diff(read, diff_text, reverse=False):
    """Apply a unified diff in memory. read(relpath)->source. Returns {relpath: new source}. Raises ValueError if a hunk does not fit."""
    out = {}
    files = re.split(r"(?m)^diff --git .*$", diff_text)
    for chunk in files:
        m = re.search(r"(?m)^\+\+\+ b/(\S+)", chunk)
        if not m:
            continue
        if reverse:
            chunk = "\n".join(
                ("+" + l[1:]) if (l.startswith("-") and not l.startswith("---")) else
                ("-" + l[1:]) if (l.startswith("+") and not l.startswith("+++")) else l
                for l in chunk.split("\n"))
        rel = m.group(1)
        src = out.get(rel)
        if src is None:
            src = read(rel)
        lines = src.split("\n")
        hunks = re.split(r"(?m)^@@ .*?@@.*$", chunk)[1:]
        headers = re.findall(r"(?m)^@@ -(\d+)(?:,\d+)? \+(\d+)(?:,\d+)? @@", chunk)
        offset = 0
        for (old_start, _new_start), body in zip(headers, hunks):
            old, new = [], []
            for ln in body.split("\n")[1:]:
                if ln.startswith("\\"):
                    continue
                if ln.startswith("-"):
                    old.append(ln[1:])
                elif ln.startswith("+"):
                    new.append(ln[1:])
                elif ln.startswith(" "):
                    old.append(ln[1:])
                    new.append(ln[1:])
                elif ln == "":
                    old.append("")
                    new.append("")
            while old and new and old[-1] == "" and new[-1] == "":
                old.pop()
                new.pop()
            pos = int(old_start) - 1 + offset
            found = None
            for delta in sorted(range(-400, 401), key=abs):
                p = pos + delta
                if 0 <= p <= len(lines) - len(old) and lines[p : p + len(old)] == old:
                    found = p
                    break
            if found is None:
                raise ValueError(f"hunk at {rel}:{old_start} does not apply")
            lines[found : found + len(old)] = new
            offset += len(new) - len(old) + (found - pos)
        out[rel] = "\n".join(lines)
    return out


def variants(prop, root):
    repo_read = Repo(root).read
    # hand-written corpus
    path = os.path.join(VERIF, "mutants", f"{prop}.json")
    if os.path.exists(path):
        with open(path) as fh:
            for m in json.load(fh):
                try:
                    src = repo_read(m["file"])
                except OSError:
                    yield m["name"], m["kind"], None, "stale: file missing"
                    continue
                if src.count(m["old"]) != 1:
                    yield m["name"], m["kind"], None, f"stale: snippet occurs {src.count(m['old'])} times"
                    continue
                yield m["name"], m["kind"], {m["file"]: src.replace(m["old"], m["new"])}, m.get("why", "")
    seeded = os.path.join(VERIF, "seeded")
    if os.path.isdir(seeded):
        for name in sorted(os.listdir(seeded)):
            meta_p = os.path.join(seeded, name, "meta.json")
            diff_p = os.path.join(seeded, name, "patch.diff")
            if not (os.path.exists(meta_p) and os.path.exists(diff_p)):
                continue
            with open(meta_p) as fh:
                meta = json.load(fh)
            props = meta.get("detect_with") or [meta.get("property")]
            if prop not in props:
                continue
            try:
                with open(diff_p) as fh:
                    ov = apply_unified_diff(repo_read, fh.read())
            except (ValueError, OSError) as exc:
                yield f"seeded/{name}", "break", None, f"stale: {exc}"
                continue
            # 'masked': a valid property-breaking change that no new finding can single out because the construct it aggravates is already a recorded known
            # finding of the unchanged tree (the check keeps printing that KNOWN-FINDING line); kept in the corpus, expected to add nothing
            yield f"seeded/{name}", ("masked" if meta.get("expect") == "masked-by-known-finding" else "break"), ov, meta.get("summary", "")
    # behaviour-preserving refactorings (written by independent agents): every property's check must stay silent on each
    refac = os.path.join(VERIF, "refactorings")
    if os.path.isdir(refac):
        for name in sorted(os.listdir(refac)):
            diff_p = os.path.join(refac, name, "patch.diff")
            if not os.path.exists(diff_p):
                continue
            try:
                with open(diff_p) as fh:
                    ov = apply_unified_diff(repo_read, fh.read())
            except (ValueError, OSError) as exc:
                yield f"refactorings/{name}", "equiv", None, f"stale: {exc}"
                continue
            yield f"refactorings/{name}", "equiv", ov, "behaviour-preserving refactoring"


def _one(args):
    prop, root, name, kind, overrides, why = args
    from .main import run_property
    code, out, ctx = run_property(prop, "quick", root, overrides, write=False, quiet=True)
    known, _ = load_known()
    new = []
    if ctx is not None:
        new = sorted({f"{f.rule}:{f.construct}" for f in ctx.findings if f.key not in known})
    return {"name": name, "kind": kind, "exit": code, "violations": new[:6], "why": why[:160]}


def run_selftest(prop, root, quiet=False):
    jobs, stale = [], []
    for name, kind, overrides, why in variants(prop, root):
        if overrides is None:
            stale.append({"name": name, "kind": kind, "status": why})
        else:
            jobs.append((prop, root, name, kind, overrides, why))
    results = []
    if jobs:
        try:
            from multiprocessing import Pool
            with Pool(min(16, len(jobs))) as pool:
                results = pool.map(_one, jobs)
        except Exception:
            results = [_one(j) for j in jobs]
    warn = 0
    for r in results:
        expected = 1 if r["kind"] == "break" else 0   # 'equiv' and 'masked' variants must add no finding
        r["as_expected"] = r["exit"] == expected
        if not r["as_expected"]:
            warn += 1
            if not quiet:
                print(f"SELFTEST-WARN property={prop} variant={r['name']} kind={r['kind']} exit={r['exit']} {r['violations']}")
    if not quiet:
        print(f"selftest {prop}: {len(results)} variants, {len(results) - warn} as expected, {len(stale)} stale")
    return {"variants": len(results), "as_expected": len(results) - warn, "stale": stale, "results": results}

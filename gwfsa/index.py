"""Program index: qualified names, imports, classes/fields, module constants, name resolution."""
import ast
import builtins

from .loader import AnalysisError

FUNC_TYPES = (ast.FunctionDef, ast.AsyncFunctionDef)


class FuncInfo:
    def __init__(self, node, module, qual, cls=None, outer=None):
        self.node = node
        self.module = module
        self.qual = qual  # e.g. "schedule.<locals>._schedule" or "TrackingBackend.submit"
        self.cls = cls  # ClassInfo or None
        self.outer = outer  # enclosing FuncInfo or None
        self.nested = {}  # name -> FuncInfo
        self.is_async = isinstance(node, ast.AsyncFunctionDef)

    @property
    def key(self):
        return f"{self.module.name}:{self.qual}"

    @property
    def name(self):
        return self.node.name

    @property
    def where(self):
        return f"{self.module.relpath}:{self.node.lineno}"

    def params(self):
        a = self.node.args
        return [x.arg for x in a.posonlyargs + a.args] + ([a.vararg.arg] if a.vararg else []) + [
            x.arg for x in a.kwonlyargs
        ] + ([a.kwarg.arg] if a.kwarg else [])

    def positional_params(self):
        a = self.node.args
        return [x.arg for x in a.posonlyargs + a.args]

    def all_param_names(self):
        a = self.node.args
        return [x.arg for x in a.posonlyargs + a.args + a.kwonlyargs]

    def decorator_names(self):
        out = []
        for d in self.node.decorator_list:
            if isinstance(d, ast.Call):
                d = d.func
            out.append(dotted(d))
        # `x = attrs.field(default=attrs.Factory(method, takes_self=True))` is what the decorator `@x.default` does: the method counts as decorated with it
        if self.cls is not None:
            for fname, _ann, value in self.cls.fields:
                if not isinstance(value, ast.Call):
                    continue
                for k in value.keywords:
                    v = k.value
                    if k.arg == "default" and isinstance(v, ast.Call) and (dotted(v.func) or "").endswith("Factory") and v.args and dotted(v.args[0]) == self.name \
                            and any(kk.arg == "takes_self" and isinstance(kk.value, ast.Constant) and kk.value.value is True for kk in v.keywords):
                        out.append(f"{fname}.default")
        return out

    def __repr__(self):
        return f"<Func {self.key}>"


class ClassInfo:
    def __init__(self, node, module, qual):
        self.node = node
        self.module = module
        self.qual = qual
        self.methods = {}
        self.fields = []  # [(name, annotation node|None, value node|None)]
        self.base_exprs = list(node.bases)

    @property
    def key(self):
        return f"{self.module.name}:{self.qual}"

    @property
    def name(self):
        return self.node.name

    @property
    def where(self):
        return f"{self.module.relpath}:{self.node.lineno}"

    def field(self, name):
        for f in self.fields:
            if f[0] == name:
                return f
        return None

    def __repr__(self):
        return f"<Class {self.key}>"


def dotted(node):
    """'a.b.c' for a Name/Attribute chain, else None."""
    parts = []
    while isinstance(node, ast.Attribute):
        parts.append(node.attr)
        node = node.value
    if isinstance(node, ast.Name):
        parts.append(node.id)
        return ".".join(reversed(parts))
    return None


def parent(node):
    return getattr(node, "_parent", None)


def enclosing_function(node):
    n = parent(node)
    while n is not None and not isinstance(n, FUNC_TYPES):
        n = parent(n)
    return n


def enclosing_stmt(node):
    n = node
    while n is not None and not isinstance(n, ast.stmt):
        n = parent(n)
    return n


def ancestors(node):
    n = parent(node)
    while n is not None:
        yield n
        n = parent(n)


def loc(node, module=None):
    module = module or getattr(node, "_module", None)
    rel = module.relpath if module else "?"
    return f"{rel}:{getattr(node, 'lineno', 0)}"


def walk_no_nested(node, include_self=True):
    """Walk a function body without descending into nested function/class definitions (lambdas are entered)."""
    stack = [node] if include_self else list(ast.iter_child_nodes(node))
    first = True
    while stack:
        n = stack.pop()
        if not first or not include_self:
            if isinstance(n, FUNC_TYPES + (ast.ClassDef,)):
                yield n  # the definition itself is visible, its body is not
                continue
        first = False
        yield n
        stack.extend(reversed(list(ast.iter_child_nodes(n))))


class Index:
    def __init__(self, repo):
        self.repo = repo
        self.functions = {}
        self.classes = {}
        self.imports = {}
        self.globals = {}
        self.func_of_node = {}
        for mod in repo.modules.values():
            self._index_module(mod)

    # ------------------------------------------------------------------ building
    def _index_module(self, mod):
        imps = {}
        glob = {}
        self.imports[mod.name] = imps
        self.globals[mod.name] = glob
        pkg = mod.name if mod.is_package else mod.name.rpartition(".")[0]

        def add_imports(stmts):
            for st in stmts:
                if isinstance(st, ast.Import):
                    for a in st.names:
                        if a.asname:
                            imps[a.asname] = a.name
                        else:
                            imps[a.name.split(".")[0]] = a.name.split(".")[0]
                elif isinstance(st, ast.ImportFrom):
                    base = st.module or ""
                    if st.level:
                        parts = pkg.split(".") if pkg else []
                        if st.level > 1:
                            parts = parts[: len(parts) - (st.level - 1)]
                        base = ".".join(parts + ([st.module] if st.module else []))
                    for a in st.names:
                        imps[a.asname or a.name] = f"{base}.{a.name}" if base else a.name
                elif isinstance(st, (ast.If, ast.Try)):
                    for sub in ast.iter_child_nodes(st):
                        if isinstance(sub, ast.stmt):
                            add_imports([sub])
                    for fld in ("body", "orelse", "finalbody"):
                        add_imports(getattr(st, fld, []))
                    for h in getattr(st, "handlers", []):
                        add_imports(h.body)

        add_imports(mod.tree.body)

        def visit_body(body, cls, outer, prefix):
            for st in body:
                if isinstance(st, FUNC_TYPES):
                    qual = prefix + st.name
                    fi = FuncInfo(st, mod, qual, cls=cls, outer=outer)
                    self.functions[fi.key] = fi
                    st._finfo = fi
                    if cls is not None and outer is None:
                        cls.methods.setdefault(st.name, fi)
                    if outer is not None:
                        outer.nested[st.name] = fi
                    for n in ast.walk(st):
                        pass
                    visit_nested(st, fi, qual + ".<locals>.")
                elif isinstance(st, ast.ClassDef):
                    qual = prefix + st.name
                    ci = ClassInfo(st, mod, qual)
                    self.classes[ci.key] = ci
                    st._cinfo = ci
                    for s in st.body:
                        if isinstance(s, ast.AnnAssign) and isinstance(s.target, ast.Name):
                            ci.fields.append((s.target.id, s.annotation, s.value))
                        elif isinstance(s, ast.Assign) and len(s.targets) == 1 and isinstance(s.targets[0], ast.Name):
                            ci.fields.append((s.targets[0].id, None, s.value))
                    visit_body(st.body, ci, None, qual + ".")
                elif isinstance(st, (ast.If, ast.Try, ast.With)):
                    for fld in ("body", "orelse", "finalbody"):
                        visit_body(getattr(st, fld, []), cls, outer, prefix)
                    for h in getattr(st, "handlers", []):
                        visit_body(h.body, cls, outer, prefix)

        def visit_nested(fnode, finfo, prefix):
            # nested defs anywhere inside the function body (not inside deeper defs)
            for n in walk_no_nested(fnode, include_self=True):
                if n is fnode:
                    continue
                if isinstance(n, FUNC_TYPES):
                    qual = prefix + n.name
                    fi = FuncInfo(n, mod, qual, cls=None, outer=finfo)
                    self.functions[fi.key] = fi
                    n._finfo = fi
                    finfo.nested[n.name] = fi
                    visit_nested(n, fi, qual + ".<locals>.")

        visit_body(mod.tree.body, None, None, "")
        for st in mod.tree.body:
            if isinstance(st, ast.Assign):
                for t in st.targets:
                    if isinstance(t, ast.Name):
                        glob[t.id] = st.value
                    elif isinstance(t, ast.Tuple) and isinstance(st.value, ast.Tuple) and len(t.elts) == len(st.value.elts):
                        for tt, vv in zip(t.elts, st.value.elts):
                            if isinstance(tt, ast.Name):
                                glob[tt.id] = vv
            elif isinstance(st, ast.AnnAssign) and isinstance(st.target, ast.Name) and st.value is not None:
                glob[st.target.id] = st.value

    # ------------------------------------------------------------------ lookup
    def func(self, key):
        try:
            return self.functions[key]
        except KeyError:
            # a method that the class now inherits (a mix-in / base class took it over) is still the class's method
            mod, _, qual = key.partition(":")
            if "." in qual:
                cname, mname = qual.rsplit(".", 1)
                ci = self.classes.get(f"{mod}:{cname}")
                m = self.method(ci, mname) if ci is not None else None
                if m is not None:
                    return m
            elif mod in self.repo.modules:
                # a function that moved to another module of the package and is imported back under its old name is still that function
                try:
                    c = self.canon(ast.Name(id=qual, ctx=ast.Load()), self.repo.modules[mod])
                    obj = self.lookup(c) if c else None
                    if isinstance(obj, FuncInfo):
                        return obj
                except Exception:
                    pass
            raise AnalysisError(f"anchor function {key} not found") from None

    def cls(self, key):
        try:
            return self.classes[key]
        except KeyError:
            raise AnalysisError(f"anchor class {key} not found") from None

    def maybe_func(self, key):
        return self.functions.get(key)

    def expanded_decorators(self, finfo):
        """The decorator list of a function with decorators that are functions OF THE PACKAGE replaced by the click.option / click.argument / click.command calls their
        body applies (a shared `force_option(func)` helper declares the same option on every command that uses it)."""
        out = []
        for d in finfo.node.decorator_list:
            dc = d.func if isinstance(d, ast.Call) else d
            g = None
            if isinstance(dc, (ast.Name, ast.Attribute)):
                c = self.canon(dc, finfo.module)
                obj = self.lookup(c) if c else None
                if isinstance(obj, FuncInfo):
                    g = obj
            if g is None:
                out.append(d)
                continue
            inner = [n for n in ast.walk(g.node) if isinstance(n, ast.Call) and isinstance(n.func, (ast.Name, ast.Attribute))
                     and (self.canon(n.func, g.module) or "") in ("click.option", "click.argument", "click.command", "click.group", "click.pass_context", "click.version_option")]
            out.extend(inner if inner else [d])
        return out

    def finfo_of(self, node):
        """FuncInfo of the function lexically containing node (None at module level)."""
        f = node if isinstance(node, FUNC_TYPES) else enclosing_function(node)
        return getattr(f, "_finfo", None) if f is not None else None

    def split_dotted(self, name):
        """(module name, attribute path) for the longest repo-module prefix of a dotted name."""
        parts = name.split(".")
        for i in range(len(parts), 0, -1):
            m = ".".join(parts[:i])
            if m in self.repo.modules:
                return m, parts[i:]
        return None, parts

    def lookup(self, name, _depth=0):
        """Resolve a canonical dotted name to FuncInfo / ClassInfo / ('const', module, node) / ('module', name) / None."""
        if _depth > 8:
            return None
        modname, rest = self.split_dotted(name)
        if modname is None:
            return None
        if not rest:
            return ("module", modname)
        full_key = f"{modname}:{'.'.join(rest)}"
        if full_key in self.functions:
            return self.functions[full_key]
        if full_key in self.classes:
            return self.classes[full_key]
        head = rest[0]
        key = f"{modname}:{head}"
        obj = self.functions.get(key) or self.classes.get(key)
        if obj is None:
            if head in self.imports[modname]:
                return self.lookup(".".join([self.imports[modname][head]] + rest[1:]), _depth + 1)
            if head in self.globals[modname]:
                if len(rest) == 1:
                    return ("const", self.repo.modules[modname], self.globals[modname][head])
                return None
            return None
        for attr in rest[1:]:
            if isinstance(obj, ClassInfo):
                nxt = self.method(obj, attr)
                if nxt is None:
                    return ("classattr", obj, attr)
                obj = nxt
            else:
                return None
        return obj

    def command_runners(self):
        """The functions through which the cluster backends run a scheduler command: the public module-level functions of gwf.backends.utils that take the
        executable's name first and (through helpers of that module) start a process with subprocess.  {canonical dotted name: FuncInfo}.
        On the pinned tree that is `call` alone; a sibling added next to it (a read-only `query` with a time limit, say) is a runner too."""
        if hasattr(self, "_runners"):
            return self._runners
        mod = "gwf.backends.utils"
        fs = {f.name: f for f in self.functions.values() if f.module.name == mod and f.cls is None and "." not in f.qual}
        starts, calls = set(), {}
        for name, f in fs.items():
            calls[name] = set()
            for n in walk_no_nested(f.node):
                if isinstance(n, ast.Call) and isinstance(n.func, (ast.Name, ast.Attribute)):
                    c = self.canon(n.func, f.module) or ""
                    if c.startswith("subprocess."):
                        starts.add(name)
                    if c.startswith(mod + "."):
                        calls[name].add(c[len(mod) + 1:])
        changed = True
        while changed:
            changed = False
            for name in fs:
                if name not in starts and calls[name] & starts:
                    starts.add(name)
                    changed = True
        self._runners = {f"{mod}.{name}": fs[name] for name in sorted(starts) if not name.startswith("_") and fs[name].positional_params()}
        self._runner_helpers = {fs[name].key for name in starts}
        return self._runners

    def runner_functions(self):
        """Keys of the runners and of the private helpers of their module through which they start the process."""
        self.command_runners()
        return self._runner_helpers

    def canon(self, node, module=None):
        """Canonical dotted name of a Name/Attribute chain as seen from its module (imports followed)."""
        module = module or node._module
        d = dotted(node)
        if d is None:
            return None
        head, _, tail = d.partition(".")
        # lexical: nested function names shadow
        fi = self.finfo_of(node)
        f = fi
        while f is not None:
            if head in f.nested:
                return f"{module.name}.{f.nested[head].qual}" if not tail else None
            if head in f.params() or head in self.local_names(f):
                return None  # a local variable, not a global name
            f = f.outer
        imps = self.imports[module.name]
        if head in imps:
            full = imps[head] + ("." + tail if tail else "")
            return self._follow(full)
        if f"{module.name}:{head}" in self.functions or f"{module.name}:{head}" in self.classes or head in self.globals[module.name]:
            return self._follow(f"{module.name}.{d}")
        if hasattr(builtins, head):
            return f"builtins.{d}"
        return None

    def _follow(self, full, depth=0):
        """Follow re-exports: gwf.Workflow -> gwf.workflow.Workflow."""
        if depth > 8:
            return full
        modname, rest = self.split_dotted(full)
        if modname is None or not rest:
            return full
        head = rest[0]
        if f"{modname}:{head}" in self.functions or f"{modname}:{head}" in self.classes:
            return full
        imps = self.imports[modname]
        if head in imps:
            return self._follow(".".join([imps[head]] + rest[1:]), depth + 1)
        return full

    _local_cache = None

    def local_names(self, finfo):
        if self._local_cache is None:
            self._local_cache = {}
        if finfo.key in self._local_cache:
            return self._local_cache[finfo.key]
        names = set()
        for n in walk_no_nested(finfo.node):
            if isinstance(n, ast.Name) and isinstance(n.ctx, (ast.Store, ast.Del)):
                names.add(n.id)
            elif isinstance(n, ast.ExceptHandler) and n.name:
                names.add(n.name)
            elif isinstance(n, (ast.Import, ast.ImportFrom)):
                for a in n.names:
                    names.add((a.asname or a.name).split(".")[0])
        # names declared global/nonlocal are not local
        for n in walk_no_nested(finfo.node):
            if isinstance(n, (ast.Global, ast.Nonlocal)):
                names -= set(n.names)
        # nested function names are handled separately
        names -= set(finfo.nested)
        self._local_cache[finfo.key] = names
        return names

    # ------------------------------------------------------------------ classes
    def bases(self, cinfo):
        out = []
        for b in cinfo.base_exprs:
            c = self.canon(b, cinfo.module)
            if c:
                out.append(c)
        return out

    def mro_names(self, cinfo, _seen=None):
        """Canonical names of the class and all its (repo or external) ancestors."""
        _seen = _seen or set()
        names = [f"{cinfo.module.name}.{cinfo.qual}"]
        for b in self.bases(cinfo):
            if b in _seen:
                continue
            _seen.add(b)
            obj = self.lookup(b)
            if isinstance(obj, ClassInfo):
                names.extend(self.mro_names(obj, _seen))
            else:
                names.append(b)
        return names

    def method(self, cinfo, name):
        if name in cinfo.methods:
            return cinfo.methods[name]
        for b in self.bases(cinfo):
            obj = self.lookup(b)
            if isinstance(obj, ClassInfo):
                m = self.method(obj, name)
                if m is not None:
                    return m
        return None

    def methods_named(self, name):
        return [c.methods[name] for c in self.classes.values() if name in c.methods]

    def class_of_method(self, finfo):
        return finfo.cls

    def module_const(self, modname, name):
        try:
            return self.globals[modname][name]
        except KeyError:
            raise AnalysisError(f"module constant {modname}.{name} not found") from None
